#!/bin/sh
# Offline setup: vendored generic-array copy, lock file, native helper binaries, and
# pre-built Kani target directories (one per worker slot) so that the first check does
# not spend its time compiling the dependencies sixteen times.
set -e
export CARGO_NET_OFFLINE=true
cd /verif
sh vendor/mk_generic_array.sh
[ -f kani/Cargo.lock ] || cp /repo/Cargo.lock kani/Cargo.lock
mkdir -p .work/logs .work/replays evidence
python3 - <<'PY'
import importlib.util, sys
sys.argv = ["x"]
spec = importlib.util.spec_from_file_location("run", "/verif/run.py")
m = importlib.util.module_from_spec(spec); spec.loader.exec_module(m)
hs, _ = m.discover(); m.write_replay_table(hs)
PY
(cd kani && cargo build --offline --release --bin modelcheck --bin replay --target-dir /verif/.work/native >/dev/null 2>&1) || true
(cd kani && cargo build --offline --bin replay --target-dir /verif/.work/native >/dev/null 2>&1) || true
if [ ! -d .work/t0/kani ]; then
  (cd kani && cargo kani -Z stubbing -Z unstable-options --only-codegen --harness c05_encode::c05_generic_dna_l0 --exact --target-dir /verif/.work/t0 >/dev/null 2>&1) || true
fi
for i in 1 2 3 4 5 6 7 8 9 10 11 12 13 14 15; do
  [ -d .work/t$i/kani ] || cp -a .work/t0 .work/t$i 2>/dev/null || true
done
echo setup ok
