#!/bin/sh
# Offline setup: vendored generic-array copy, lock file, native helper binaries.
set -e
export CARGO_NET_OFFLINE=true
cd /verif
sh vendor/mk_generic_array.sh
[ -f kani/Cargo.lock ] || cp /repo/Cargo.lock kani/Cargo.lock
mkdir -p .work/logs .work/replays evidence
[ -f kani/src/replay_table.rs ] || echo 'pub const TABLE: &[(&str, fn())] = &[];' > kani/src/replay_table.rs
(cd kani && cargo build --offline --release --bin modelcheck --target-dir /verif/.work/native >/dev/null 2>&1) || true
echo setup ok
