#!/bin/bash
# Development aid: run a check against a seeded change without touching /repo.
#   seedrun.sh <seed-id> <property> <tier> [run.py args...]
set -e
sid=$1; prop=$2; tier=$3; shift 3
wt=/tmp/wt_$sid
git -C /repo worktree remove --force $wt 2>/dev/null || true
git -C /repo worktree add -q --detach $wt HEAD
git -C $wt apply /verif/seeded/$sid/patch.diff
set +e
VERIF_REPO=$wt python3 /verif/run.py $prop $tier "$@"
rc=$?
git -C /repo worktree remove --force $wt
rm -rf /verif/.work/alt_tmp_wt_$sid
exit $rc
