#!/bin/bash
# Development aid: run the C18 check (Engine M) against a seeded change without touching /repo.
sid=$1; wt=/tmp/wt_$sid
git -C /repo worktree remove --force $wt 2>/dev/null || true
git -C /repo worktree add -q --detach $wt HEAD
git -C $wt apply /verif/seeded/$sid/patch.diff
VERIF_REPO=$wt python3 /verif/mir2smt/c18.py quick; rc=$?
git -C /repo worktree remove --force $wt
rm -rf /verif/.work/mir_alt__tmp_wt_$sid
exit $rc
