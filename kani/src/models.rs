//! Scalar models of the x86 intrinsics that Kani 0.68 cannot translate
//! (`llvm.x86.*` externs, `simd_select`, inline asm, float `simd_add`).
//!
//! Each model is substituted for the real intrinsic with `#[kani::stub]` and is
//! differentially tested against the hardware instruction by
//! `src/bin/modelcheck.rs` on every run. Aligned loads / stores additionally
//! assert the alignment of the address they are given, which the real
//! instruction requires (a general-protection fault on hardware).

#![allow(clippy::missing_safety_doc)]

use core::arch::x86_64::*;
use core::mem::transmute;

#[inline(always)]
fn aligned<T>(p: *const T, a: usize) -> bool {
    (p as usize) % a == 0
}

// --- byte / integer models -----------------------------------------------------

pub unsafe fn mm256_shuffle_epi8(a: __m256i, b: __m256i) -> __m256i {
    let a: [u8; 32] = transmute(a);
    let b: [u8; 32] = transmute(b);
    let mut r = [0u8; 32];
    let mut i = 0;
    while i < 32 {
        let lane = i & 0x10;
        r[i] = if b[i] & 0x80 != 0 {
            0
        } else {
            a[lane + (b[i] & 0x0f) as usize]
        };
        i += 1;
    }
    transmute(r)
}

pub unsafe fn mm256_blendv_epi8(a: __m256i, b: __m256i, mask: __m256i) -> __m256i {
    let a: [u8; 32] = transmute(a);
    let b: [u8; 32] = transmute(b);
    let m: [u8; 32] = transmute(mask);
    let mut r = [0u8; 32];
    let mut i = 0;
    while i < 32 {
        r[i] = if m[i] & 0x80 != 0 { b[i] } else { a[i] };
        i += 1;
    }
    transmute(r)
}

pub unsafe fn mm256_max_epu8(a: __m256i, b: __m256i) -> __m256i {
    let a: [u8; 32] = transmute(a);
    let b: [u8; 32] = transmute(b);
    let mut r = [0u8; 32];
    let mut i = 0;
    while i < 32 {
        r[i] = if a[i] > b[i] { a[i] } else { b[i] };
        i += 1;
    }
    transmute(r)
}

pub unsafe fn mm256_adds_epu8(a: __m256i, b: __m256i) -> __m256i {
    let a: [u8; 32] = transmute(a);
    let b: [u8; 32] = transmute(b);
    let mut r = [0u8; 32];
    let mut i = 0;
    while i < 32 {
        r[i] = a[i].saturating_add(b[i]);
        i += 1;
    }
    transmute(r)
}

pub unsafe fn mm256_testz_si256(a: __m256i, b: __m256i) -> i32 {
    let a: [u64; 4] = transmute(a);
    let b: [u64; 4] = transmute(b);
    (((a[0] & b[0]) | (a[1] & b[1]) | (a[2] & b[2]) | (a[3] & b[3])) == 0) as i32
}

pub unsafe fn mm256_cmpgt_epi16(a: __m256i, b: __m256i) -> __m256i {
    let a: [i16; 16] = transmute(a);
    let b: [i16; 16] = transmute(b);
    let mut r = [0u16; 16];
    let mut i = 0;
    while i < 16 {
        r[i] = if a[i] > b[i] { 0xffff } else { 0 };
        i += 1;
    }
    transmute(r)
}

pub unsafe fn mm256_sub_epi16(a: __m256i, b: __m256i) -> __m256i {
    let a: [i16; 16] = transmute(a);
    let b: [i16; 16] = transmute(b);
    let mut r = [0i16; 16];
    let mut i = 0;
    while i < 16 {
        r[i] = a[i].wrapping_sub(b[i]);
        i += 1;
    }
    transmute(r)
}

// --- float models ----------------------------------------------------------------

pub unsafe fn mm256_blendv_ps(a: __m256, b: __m256, mask: __m256) -> __m256 {
    let a: [u32; 8] = transmute(a);
    let b: [u32; 8] = transmute(b);
    let m: [u32; 8] = transmute(mask);
    let mut r = [0u32; 8];
    let mut i = 0;
    while i < 8 {
        r[i] = if m[i] & 0x8000_0000 != 0 { b[i] } else { a[i] };
        i += 1;
    }
    transmute(r)
}

pub unsafe fn mm256_permutevar8x32_ps(a: __m256, idx: __m256i) -> __m256 {
    let a: [u32; 8] = transmute(a);
    let idx: [u32; 8] = transmute(idx);
    let mut r = [0u32; 8];
    let mut i = 0;
    while i < 8 {
        r[i] = a[(idx[i] & 7) as usize];
        i += 1;
    }
    transmute(r)
}

pub unsafe fn mm256_i32gather_ps<const SCALE: i32>(p: *const f32, offsets: __m256i) -> __m256 {
    let off: [i32; 8] = transmute(offsets);
    let mut r = [0f32; 8];
    let mut i = 0;
    while i < 8 {
        let addr = (p as *const u8).offset((off[i] as isize) * (SCALE as isize)) as *const f32;
        r[i] = core::ptr::read_unaligned(addr);
        i += 1;
    }
    transmute(r)
}

/// Only the predicate used by lightmotif (`_CMP_LE_OS` = 18) is modelled.
pub unsafe fn mm256_cmp_ps<const IMM5: i32>(a: __m256, b: __m256) -> __m256 {
    assert!(IMM5 == _CMP_LE_OS, "unmodelled _mm256_cmp_ps predicate");
    let a: [f32; 8] = transmute(a);
    let b: [f32; 8] = transmute(b);
    let mut r = [0u32; 8];
    let mut i = 0;
    while i < 8 {
        r[i] = if a[i] <= b[i] { 0xffff_ffff } else { 0 };
        i += 1;
    }
    transmute(r)
}

/// x86 `maxps`: `a > b ? a : b` (returns `b` when either is NaN or both are zero).
pub unsafe fn mm256_max_ps(a: __m256, b: __m256) -> __m256 {
    let a: [f32; 8] = transmute(a);
    let b: [f32; 8] = transmute(b);
    let mut r = [0f32; 8];
    let mut i = 0;
    while i < 8 {
        r[i] = if a[i] > b[i] { a[i] } else { b[i] };
        i += 1;
    }
    transmute(r)
}

pub unsafe fn mm256_add_ps(a: __m256, b: __m256) -> __m256 {
    let a: [f32; 8] = transmute(a);
    let b: [f32; 8] = transmute(b);
    let mut r = [0f32; 8];
    let mut i = 0;
    while i < 8 {
        r[i] = a[i] + b[i];
        i += 1;
    }
    transmute(r)
}

pub unsafe fn mm_add_ps(a: __m128, b: __m128) -> __m128 {
    let a: [f32; 4] = transmute(a);
    let b: [f32; 4] = transmute(b);
    let r = [a[0] + b[0], a[1] + b[1], a[2] + b[2], a[3] + b[3]];
    transmute(r)
}

pub unsafe fn mm_cmple_ps(a: __m128, b: __m128) -> __m128 {
    let a: [f32; 4] = transmute(a);
    let b: [f32; 4] = transmute(b);
    let mut r = [0u32; 4];
    let mut i = 0;
    while i < 4 {
        r[i] = if a[i] <= b[i] { 0xffff_ffff } else { 0 };
        i += 1;
    }
    transmute(r)
}

// --- aligned memory access (alignment asserted) ---------------------------------

pub unsafe fn mm256_load_si256(p: *const __m256i) -> __m256i {
    assert!(aligned(p, 32), "aligned 256-bit load from a misaligned address");
    core::ptr::read_unaligned(p)
}

pub unsafe fn mm256_load_ps(p: *const f32) -> __m256 {
    assert!(aligned(p, 32), "aligned 256-bit load from a misaligned address");
    core::ptr::read_unaligned(p as *const __m256)
}

pub unsafe fn mm_load_si128(p: *const __m128i) -> __m128i {
    assert!(aligned(p, 16), "aligned 128-bit load from a misaligned address");
    core::ptr::read_unaligned(p)
}

pub unsafe fn mm_load_ps(p: *const f32) -> __m128 {
    assert!(aligned(p, 16), "aligned 128-bit load from a misaligned address");
    core::ptr::read_unaligned(p as *const __m128)
}

pub unsafe fn mm256_stream_ps(p: *mut f32, a: __m256) {
    assert!(aligned(p, 32), "non-temporal 256-bit store to a misaligned address");
    core::ptr::write_unaligned(p as *mut __m256, a)
}

pub unsafe fn mm256_stream_si256(p: *mut __m256i, a: __m256i) {
    assert!(aligned(p, 32), "non-temporal 256-bit store to a misaligned address");
    core::ptr::write_unaligned(p, a)
}

pub unsafe fn mm_stream_ps(p: *mut f32, a: __m128) {
    assert!(aligned(p, 16), "non-temporal 128-bit store to a misaligned address");
    core::ptr::write_unaligned(p as *mut __m128, a)
}

pub unsafe fn mm_sfence() {}

// --- data-flow abstraction for memory-only harnesses (C06) -------------------------
// The addresses touched by `stripe_avx2` depend only on the sequence length, never on
// the symbols. In the harnesses that check *memory accesses only* the five levels of
// the 32x32 byte transpose network are replaced by the identity on their first
// operand, which removes ~1000 symbolic bytes from the encoding. These models are
// NOT faithful and are never used in a harness that asserts anything about data.

pub unsafe fn abstract_unpack(a: __m256i, _b: __m256i) -> __m256i {
    a
}

pub unsafe fn abstract_permute2x128<const IMM8: i32>(a: __m256i, _b: __m256i) -> __m256i {
    a
}
