//! C01 — every backend computes the defined PSSM score at every position.
//!
//! @functions C01: pli::Score::{score_rows_into,score_into,score} (default); sse2::score_sse2 / Sse2::score_rows_into; avx2::{score_f32_avx2_permute,score_f32_avx2_gather} / Avx2::score_f32_rows_into; dispatch.rs Score<f32> arms; pwm ScoringMatrix::{score,score_position}; scores.rs StripedScores::{resize,max_index,matrix,Index}; seq.rs StripedSequence::{new,configure_wrap,Index}
//!
//! The striped sequence is built cell by cell (so that the *length* L can be
//! symbolic without driving any allocation): R concrete rows, L symbolic in
//! (C(R-1), C*R] (0..=C when R = 1, which includes L < M and L = 0), symbols
//! symbolic below L and the wildcard above, exactly what striping produces
//! (C04). Look-ahead rows come from the real `configure_wrap(M-1)`.
//!
//! Matrix cells are symbolic small integers (|k| <= 127) stored as f32, or -inf:
//! every summation order is then exact, so `==` is a sound oracle whatever order a
//! backend adds in, and a wrong lane, row, stride or look-ahead row still changes
//! the value.

use core::ops::Range;
use generic_array::ArrayLength;
use lightmotif::abc::{Alphabet, Background, Dna, Protein, Symbol};
use lightmotif::dense::DenseMatrix;
use lightmotif::num::{StrictlyPositive, Unsigned, U16, U32, U4};
use lightmotif::pli::dispatch::{set_verif_override, Dispatch};
use lightmotif::pli::platform::{Avx2, Generic, Sse2};
use lightmotif::pli::{Pipeline, Score};
use lightmotif::pwm::ScoringMatrix;
use lightmotif::scores::StripedScores;
use lightmotif::seq::StripedSequence;

use crate::c04_stripe::SymGen;
use crate::nd;

pub const MAXL: usize = 160;
pub const KMAX: usize = 21;

/// A symbolic cell: small integer as f32, or negative infinity.
pub fn any_cell() -> f32 {
    let k = nd::i8_();
    if k == -128 {
        f32::NEG_INFINITY
    } else {
        k as f32
    }
}

/// Symbolic scoring table with `M` rows; `wild_neg_inf` forces the wildcard
/// column to -inf (what the library's conversions produce for a background that
/// gives the wildcard zero frequency).
pub fn any_pssm<A: Alphabet, const M: usize>(
    wild_neg_inf: bool,
) -> (DenseMatrix<f32, A::K>, [[f32; KMAX]; M]) {
    let k_ = <A::K as Unsigned>::USIZE;
    let mut d = DenseMatrix::<f32, A::K>::new(M);
    let mut sh = [[0f32; KMAX]; M];
    for j in 0..M {
        for a in 0..k_ {
            let x = if wild_neg_inf && a == k_ - 1 {
                f32::NEG_INFINITY
            } else {
                any_cell()
            };
            d[j][a] = x;
            sh[j][a] = x;
        }
    }
    (d, sh)
}

/// Striped sequence with `R` rows, symbolic length and content, `wrap` look-ahead rows.
pub fn any_striped<A: SymGen, C: StrictlyPositive + ArrayLength, const R: usize>(
    wrap: usize,
) -> (StripedSequence<A, C>, [A::Symbol; MAXL], usize) {
    let c_ = C::USIZE;
    let lo = if R == 1 { 0 } else { c_ * (R - 1) + 1 };
    let l = nd::usize_in(lo, c_ * R);
    let mut m = DenseMatrix::<A::Symbol, C>::new(R);
    let mut lin = [A::Symbol::default(); MAXL];
    for c in 0..c_ {
        for r in 0..R {
            let i = c * R + r;
            let s = if i < l { A::any_sym() } else { A::Symbol::default() };
            m[r][c] = s;
            lin[i] = s;
        }
    }
    // hook H3: `StripedSequence::new(m, l)` returns a `Result` whose discriminant
    // depends on the symbolic `l`; after `unwrap()` CBMC no longer knows the row
    // count of the matrix (every later loop bound and allocation turns symbolic).
    // l <= C*R holds by the assumption above, which is all `new` checks.
    let mut st = StripedSequence::<A, C>::verif_new_unchecked(m, l);
    st.configure_wrap(wrap);
    (st, lin, l)
}

/// Reference score of position `i` (exact for the cell lattice).
pub fn ref_score<A: Alphabet, const M: usize>(
    cell: &[[f32; KMAX]; M],
    lin: &[A::Symbol; MAXL],
    i: usize,
) -> f32 {
    let mut e = 0.0f32;
    for j in 0..M {
        let s = if i + j < MAXL { lin[i + j] } else { A::Symbol::default() };
        e += cell[j][s.as_index()];
    }
    e
}

fn check_scores<A: SymGen, C: StrictlyPositive + ArrayLength, const R: usize, const M: usize>(
    scores: &StripedScores<f32, C>,
    cell: &[[f32; KMAX]; M],
    lin: &[A::Symbol; MAXL],
    l: usize,
    rows: Range<usize>,
    wild_neg_inf: bool,
) {
    if l < M || rows.is_empty() {
        assert!(scores.matrix().rows() == 0, "scores must be empty when L < M");
        assert!(scores.is_empty());
        crate::witness!(l < M, "opt: sequence shorter than the motif");
        return;
    }
    let n = l + 1 - M;
    assert!(scores.max_index() == n, "number of scored positions is not L-M+1");
    assert!(scores.matrix().rows() == rows.len(), "one score row per requested sequence row");
    for k in 0..rows.len() {
        for c in 0..C::USIZE {
            let i = c * R + rows.start + k;
            let got = scores.matrix()[k][c];
            if i < n {
                let want = ref_score::<A, M>(cell, lin, i);
                assert!(got == want, "score differs from the sum of the matrix entries");
            } else if wild_neg_inf {
                assert!(got == f32::NEG_INFINITY, "cell past the last position is not -inf");
            }
        }
    }
    crate::witness!(
        l == C::USIZE * R && scores.matrix()[rows.len() - 1][0] > 0.0,
        "full-length sequence with a finite positive score"
    );
}

/// `score_rows_into` of one pipeline over a row sub-range (A0..A1; full scan when 0..R)
fn rows_body<
    A: SymGen,
    C: StrictlyPositive + ArrayLength,
    P: Score<f32, A, C>,
    const R: usize,
    const M: usize,
    const A0: usize,
    const A1: usize,
    const WILD: bool,
    const EXTRA: usize,
>(
    pli: &P,
) {
    let (pssm, cell) = any_pssm::<A, M>(WILD);
    // EXTRA > 0: the sequence carries more look-ahead rows than this motif needs
    // (it was configured for a wider motif before)
    let (st, lin, l) = any_striped::<A, C, R>(M - 1 + EXTRA);
    let mut scores = StripedScores::<f32, C>::empty();
    if A0 == 0 && A1 == R {
        pli.score_into(&pssm, &st, &mut scores);
    } else {
        pli.score_rows_into(&pssm, &st, A0..A1, &mut scores);
    }
    check_scores::<A, C, R, M>(&scores, &cell, &lin, l, A0..A1, WILD);
    if A0 == 0 && A1 == R && l >= M {
        // linear indexing of the striped scores
        let i = nd::usize_in(0, l - M);
        assert!(scores[i] == ref_score::<A, M>(&cell, &lin, i), "Index<usize> of the scores");
    }
}

/// `ScoringMatrix::score` through the dispatcher + `score_position`
fn dispatch_body<A: SymGen, const R: usize, const M: usize, const EXTRA: usize>(arm: Dispatch)
where
    Pipeline<A, Dispatch>: Score<f32, A, U32>,
{
    set_verif_override(Some(arm));
    let (d, cell) = any_pssm::<A, M>(true);
    let pssm = ScoringMatrix::<A>::new(Background::uniform(), d);
    // the sequence may have been used with a wider motif before (EXTRA more rows)
    let (mut st, lin, l) = any_striped::<A, U32, R>(if EXTRA > 0 { M - 1 + EXTRA } else { 0 });
    st.configure(&pssm);
    assert!(st.wrap() == M - 1 + EXTRA);
    let scores = pssm.score(&st);
    check_scores::<A, U32, R, M>(&scores, &cell, &lin, l, 0..R, true);
    if l >= M {
        let i = nd::usize_in(0, l - M);
        let want = ref_score::<A, M>(&cell, &lin, i);
        assert!(pssm.score_position(&st, i) == want, "score_position differs");
        assert!(scores[i] == want);
    }
}

fn generic<A: Alphabet>() -> Pipeline<A, Generic> {
    Pipeline::generic()
}
fn sse2<A: Alphabet>() -> Pipeline<A, Sse2> {
    Pipeline::default()
}
fn avx2<A: Alphabet>() -> Pipeline<A, Avx2> {
    Pipeline::default()
}

// --- generic -------------------------------------------------------------------------
//@ C01 quick 800 generic score, DNA, C=4, R=2 (L in 5..=8), M=2, free wildcard column
harness!(none, 34, c01_generic_dna_c4_r2_m2, rows_body::<Dna, U4, _, 2, 2, 0, 2, false, 0>(&generic()));
//@ C01 quick 800 generic score, DNA, C=32, R=1 (L in 0..=32, incl. L<M), M=2
harness!(none, 34, c01_generic_dna_c32_r1_m2, rows_body::<Dna, U32, _, 1, 2, 0, 1, true, 0>(&generic()));
//@ C01 quick 800 generic score, protein, C=4, R=2, M=2
harness!(none, 34, c01_generic_protein_c4_r2_m2, rows_body::<Protein, U4, _, 2, 2, 0, 2, true, 0>(&generic()));
//@ C01 quick 800 generic score_rows_into rows 1..3, DNA, C=4, R=3 (L in 9..=12), M=2
harness!(none, 34, c01_generic_dna_c4_r3_m2_rows13, rows_body::<Dna, U4, _, 3, 2, 1, 3, true, 0>(&generic()));
//@ C01 quick 800 generic score, DNA, C=4, R=1 (L in 0..=4), M=3 (look-ahead wider than R)
harness!(none, 34, c01_generic_dna_c4_r1_m3, rows_body::<Dna, U4, _, 1, 3, 0, 1, true, 0>(&generic()));
//@ C01 quick 800 generic score, DNA, C=4, R=2, M=2 on a sequence configured for a wider motif (2 extra look-ahead rows)
harness!(none, 34, c01_generic_dna_c4_r2_m2_extra2, rows_body::<Dna, U4, _, 2, 2, 0, 2, true, 2>(&generic()));
//@ C01 thorough 4464 generic score, DNA, C=16, R=2, M=3
harness!(none, 34, c01_generic_dna_c16_r2_m3, rows_body::<Dna, U16, _, 2, 3, 0, 2, true, 0>(&generic()));
//@ C01 thorough 2369 generic score, DNA, C=4, R=3, M=4
harness!(none, 34, c01_generic_dna_c4_r3_m4, rows_body::<Dna, U4, _, 3, 4, 0, 3, false, 0>(&generic()));
//@ C01 quick 800 generic score, DNA, C=4, R=2, M=1
harness!(none, 34, c01_generic_dna_c4_r2_m1, rows_body::<Dna, U4, _, 2, 1, 0, 2, true, 0>(&generic()));

// --- SSE2 ----------------------------------------------------------------------------
//@ C01 thorough 6823 SSE2 score, DNA, C=16, R=2 (L in 17..=32), M=2
harness!(sse2, 34, c01_sse2_dna_c16_r2_m2, rows_body::<Dna, U16, _, 2, 2, 0, 2, true, 0>(&sse2()));
//@ C01 extended 10800 SSE2 score, DNA, C=32, R=1 (L in 0..=32), M=2, free wildcard column
harness!(sse2, 34, c01_sse2_dna_c32_r1_m2, rows_body::<Dna, U32, _, 1, 2, 0, 1, false, 0>(&sse2()));
//@ C01 extended 10800 SSE2 score, protein, C=16, R=1, M=2
harness!(sse2, 34, c01_sse2_protein_c16_r1_m2, rows_body::<Protein, U16, _, 1, 2, 0, 1, true, 0>(&sse2()));
//@ C01 extended 5400 SSE2 score_rows_into rows 1..2, DNA, C=16, R=2, M=3
harness!(sse2, 34, c01_sse2_dna_c16_r2_m3_rows12, rows_body::<Dna, U16, _, 2, 3, 1, 2, true, 0>(&sse2()));
//@ C01 extended 5400 SSE2 score, DNA, C=32, R=2, M=2
harness!(sse2, 34, c01_sse2_dna_c32_r2_m2, rows_body::<Dna, U32, _, 2, 2, 0, 2, true, 0>(&sse2()));

// --- AVX2 ----------------------------------------------------------------------------
//@ C01 quick 800 AVX2 permute score, DNA, R=1 (L in 0..=32), M=2
harness!(avx2, 34, c01_avx2_dna_r1_m2, rows_body::<Dna, U32, _, 1, 2, 0, 1, true, 0>(&avx2()));
//@ C01 quick 800 AVX2 gather score, protein, R=1 (L in 0..=32), M=2
harness!(avx2, 34, c01_avx2_protein_r1_m2, rows_body::<Protein, U32, _, 1, 2, 0, 1, true, 0>(&avx2()));
//@ C01 quick 800 AVX2 permute score_rows_into rows 1..2, DNA, R=2 (L in 33..=64), M=1, free wildcard column
harness!(avx2, 34, c01_avx2_dna_r2_m1_rows12, rows_body::<Dna, U32, _, 2, 1, 1, 2, false, 0>(&avx2()));
//@ C01 quick 800 AVX2 permute score, DNA, R=1, M=1 on a sequence configured for a wider motif (2 extra look-ahead rows)
harness!(avx2, 34, c01_avx2_dna_r1_m1_extra2, rows_body::<Dna, U32, _, 1, 1, 0, 1, true, 2>(&avx2()));
//@ C01 thorough 2565 SSE2 score, DNA, C=16, R=1, M=2 on a sequence configured for a wider motif (1 extra look-ahead row)
harness!(sse2, 34, c01_sse2_dna_c16_r1_m2_extra1, rows_body::<Dna, U16, _, 1, 2, 0, 1, true, 1>(&sse2()));
//@ C01 thorough 2880 AVX2 permute score, DNA, R=2 (L in 33..=64), M=2
harness!(avx2, 34, c01_avx2_dna_r2_m2, rows_body::<Dna, U32, _, 2, 2, 0, 2, true, 0>(&avx2()));
//@ C01 thorough 5044 AVX2 permute score, DNA, R=1, M=3 (look-ahead wider than R)
harness!(avx2, 34, c01_avx2_dna_r1_m3, rows_body::<Dna, U32, _, 1, 3, 0, 1, true, 0>(&avx2()));
//@ C01 thorough 3641 AVX2 gather score, protein, R=2, M=2
harness!(avx2, 34, c01_avx2_protein_r2_m2, rows_body::<Protein, U32, _, 2, 2, 0, 2, true, 0>(&avx2()));
//@ C01 extended 10800 AVX2 permute score, DNA, R=3 (L in 65..=96), M=3
harness!(avx2, 34, c01_avx2_dna_r3_m3, rows_body::<Dna, U32, _, 3, 3, 0, 3, true, 0>(&avx2()));

//@ C01 quick 800 SSE2 score, DNA, C=16, R=1 (L in 0..=16), M=1
harness!(sse2, 34, c01_sse2_dna_c16_r1_m1, rows_body::<Dna, U16, _, 1, 1, 0, 1, true, 0>(&sse2()));
//@ C01 quick 800 AVX2 gather score, protein, R=1 (L in 0..=32), M=1
harness!(avx2, 34, c01_avx2_protein_r1_m1, rows_body::<Protein, U32, _, 1, 1, 0, 1, true, 0>(&avx2()));

// --- dispatcher arms ------------------------------------------------------------------
//@ C01 quick 800 ScoringMatrix::score + score_position via dispatcher, AVX2 arm, DNA, R=1, M=2
harness!(avx2, 34, c01_dispatch_avx2_dna_r1_m2, dispatch_body::<Dna, 1, 2, 1>(Dispatch::Avx2));
//@ C01 thorough 8310 ScoringMatrix::score + score_position via dispatcher, SSE2 arm, DNA, R=1, M=2
harness!(avx2, 34, c01_dispatch_sse2_dna_r1_m2, dispatch_body::<Dna, 1, 2, 0>(Dispatch::Sse2));
//@ C01 quick 800 ScoringMatrix::score + score_position via dispatcher, generic arm, DNA, R=1, M=2
harness!(avx2, 34, c01_dispatch_generic_dna_r1_m2, dispatch_body::<Dna, 1, 2, 2>(Dispatch::Generic));
//@ C01 thorough 1800 ScoringMatrix::score via dispatcher, AVX2 arm (gather), protein, R=1, M=2
harness!(avx2, 34, c01_dispatch_avx2_protein_r1_m2, dispatch_body::<Protein, 1, 2, 0>(Dispatch::Avx2));
//@ C01 quick 800 ScoringMatrix::score + score_position via dispatcher, AVX2 arm, DNA, R=1, M=1
harness!(avx2, 34, c01_dispatch_avx2_dna_r1_m1, dispatch_body::<Dna, 1, 1, 0>(Dispatch::Avx2));
//@ C01 quick 800 ScoringMatrix::score + score_position via dispatcher, SSE2 arm, DNA, R=1, M=1, one extra look-ahead row
harness!(avx2, 34, c01_dispatch_sse2_dna_r1_m1, dispatch_body::<Dna, 1, 1, 1>(Dispatch::Sse2));
//@ C01 quick 800 ScoringMatrix::score + score_position via dispatcher, generic arm, DNA, R=1, M=1
harness!(avx2, 34, c01_dispatch_generic_dna_r1_m1, dispatch_body::<Dna, 1, 1, 0>(Dispatch::Generic));
