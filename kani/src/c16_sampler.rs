//! C16 — Gibbs sampler state always equals a recomputation from its alignment.
//!
//! @functions C16: sampler.rs Sampler::{next, select_holdout, exclude_sequence, include_sequence, prepare_pssm, update_holdout, count_matrix, background, active_sequences, active_starts}; sampler.rs SamplerData::new; seq.rs SymbolCount for StripedSequence; pwm CountMatrix::to_freq / FrequencyMatrix::into_scoring; pli Score (generic arm); rand 0.8 Uniform<usize>, WeightedIndex<f64>, UniformFloat<f64>
//!
//! One inductive step instead of run histories: the pre-state is an *arbitrary*
//! state satisfying the invariant (starts symbolic and in range, active set
//! symbolic in zoops mode, motif / background counts recomputed from them by the
//! reference recount and injected through hook H2); the real `next()` runs once;
//! the invariant is asserted again, together with the per-iteration facts. Any
//! run of any length is covered for the stated sizes because every reachable state
//! satisfies the invariant (base case: the state built by `Sampler::new`).
//!
//! Environment: the random source returns k * 2^60 (k symbolic in 0..16), for
//! which rand's widening-multiply rejection loop accepts the first draw and every
//! outcome of a range <= 16 is reachable; `f64::powf` (the position weights) is an
//! arbitrary value of {0, 1, 2}; `f32::log2` is the model of C09. The float
//! content of the scores therefore does not matter — which is the point: the
//! bookkeeping must be right whatever position gets drawn.

use generic_array::GenericArray;
use lightmotif::abc::{Alphabet, Dna, Nucleotide, Symbol};
use lightmotif::dense::DenseMatrix;
use lightmotif::num::{U32, U5};
use lightmotif::pli::dispatch::{set_verif_override, Dispatch};
use lightmotif::pli::{Pipeline, Stripe};
use lightmotif::sampler::{Sampler, SamplerData, SamplerMode};
use lightmotif::seq::StripedSequence;
use rand::RngCore;

use crate::nd;
use crate::refs::nuc;

pub struct NdRng;

impl RngCore for NdRng {
    fn next_u32(&mut self) -> u32 {
        ((nd::u8_() & 15) as u32) << 28
    }
    fn next_u64(&mut self) -> u64 {
        ((nd::u8_() & 15) as u64) << 60
    }
    fn fill_bytes(&mut self, dest: &mut [u8]) {
        for b in dest.iter_mut() {
            *b = nd::u8_();
        }
    }
    fn try_fill_bytes(&mut self, dest: &mut [u8]) -> Result<(), rand::Error> {
        self.fill_bytes(dest);
        Ok(())
    }
}

/// weights of candidate positions: any of {0, 1, 2}
pub fn powf_model(_base: f64, _e: f64) -> f64 {
    (nd::u8_in(0, 2)) as f64
}

macro_rules! sampler_harness {
    ($unwind:literal, $name:ident, $body:expr) => {
        #[cfg_attr(kani, kani::proof)]
        #[cfg_attr(kani, kani::unwind($unwind))]
        #[cfg_attr(kani, kani::stub(alloc::fmt::format, crate::refs::fmt_format_stub))]
        #[cfg_attr(kani, kani::stub(f32::log2, crate::c09_convert::log2_model))]
        #[cfg_attr(kani, kani::stub(f64::powf, crate::c16_sampler::powf_model))]
        #[cfg_attr(kani, kani::stub(f32::powf, crate::c16_sampler::powf32_model))]
        pub fn $name() {
            $body
        }
    };
}

pub fn powf32_model(_base: f32, _e: f32) -> f32 {
    (nd::u8_in(0, 2)) as f32
}

fn recount<const N: usize, const L: usize, const W: usize>(
    seqs: &[[Nucleotide; L]; N],
    starts: &[usize; N],
    active: &[bool; N],
    skip: Option<usize>,
) -> ([[u32; 5]; W], [usize; 5]) {
    let mut motif = [[0u32; 5]; W];
    let mut bg = [0usize; 5];
    for i in 0..N {
        if active[i] && Some(i) != skip {
            for k in 0..L {
                let s = seqs[i][k].as_index();
                if k >= starts[i] && k < starts[i] + W {
                    motif[k - starts[i]][s] += 1;
                } else {
                    bg[s] += 1;
                }
            }
        }
    }
    (motif, bg)
}

/// One striped sequence with `W` look-ahead rows.
fn striped_of<const L: usize, const W: usize>(seq: &[Nucleotide; L]) -> StripedSequence<Dna, U32> {
    let pli = Pipeline::<Dna, _>::generic();
    let mut st: StripedSequence<Dna, U32> = pli.stripe(&seq[..]);
    st.configure_wrap(W);
    st
}

/// The data set as an array *literal* of locals. (Structs that travel through a heap
/// buffer or through `core::array::from_fn` lose their constant row counts in CBMC,
/// and every loop over the rows of a sequence is then unwound to the global bound.)
pub trait DataSet<const L: usize, const W: usize>: Sized {
    fn build(seqs: &[[Nucleotide; L]]) -> Self;
}
impl<const L: usize, const W: usize> DataSet<L, W> for [StripedSequence<Dna, U32>; 2] {
    fn build(s: &[[Nucleotide; L]]) -> Self {
        [striped_of::<L, W>(&s[0]), striped_of::<L, W>(&s[1])]
    }
}
impl<const L: usize, const W: usize> DataSet<L, W> for [StripedSequence<Dna, U32>; 4] {
    fn build(s: &[[Nucleotide; L]]) -> Self {
        [
            striped_of::<L, W>(&s[0]),
            striped_of::<L, W>(&s[1]),
            striped_of::<L, W>(&s[2]),
            striped_of::<L, W>(&s[3]),
        ]
    }
}

/// one step of the sampler from an arbitrary consistent state
fn step_body<const N: usize, const L: usize, const W: usize, const ZOOPS: bool>(arm: Dispatch)
where
    [StripedSequence<Dna, U32>; N]: DataSet<L, W>,
{
    set_verif_override(Some(arm));
    let seqs: [[Nucleotide; L]; N] = core::array::from_fn(|_| core::array::from_fn(|_| nuc(nd::u8_in(0, 4))));
    let striped = <[StripedSequence<Dna, U32>; N] as DataSet<L, W>>::build(&seqs[..]);
    let data = SamplerData::<Dna, _, U32>::new(striped);
    // arbitrary consistent pre-state
    let starts: [usize; N] = core::array::from_fn(|_| nd::usize_in(0, L - W));
    let active: [bool; N] = core::array::from_fn(|_| if ZOOPS { nd::bool_() } else { true });
    let mut n_active = 0;
    for i in 0..N {
        if active[i] {
            n_active += 1;
        }
    }
    // the background of the active set must not be empty (Background::from_counts would
    // reject it): at least two active sequences, so that one remains without the hold-out
    nd::assume(n_active >= 2);
    let (m0, b0) = recount::<N, L, W>(&seqs, &starts, &active, None);
    let mut motif = DenseMatrix::<u32, U5>::new(W);
    for j in 0..W {
        for s in 0..5 {
            motif[j][s] = m0[j][s];
        }
    }
    let step0 = nd::usize_in(0, 3);
    let mode = if ZOOPS { SamplerMode::Zoops } else { SamplerMode::Oops };
    let mut sampler = Sampler::verif_from_parts(
        &data,
        W,
        NdRng,
        mode,
        starts.to_vec(),
        active.to_vec(),
        motif,
        GenericArray::from(b0),
        step0,
        step0,
        N,
    );
    let it = sampler.next().expect("a sampler that has not converged yields an iteration");
    // --- per-iteration facts
    let z = it.z;
    assert!(z < N, "hold-out index out of range");
    assert!(it.step == step0, "iteration reports a wrong step");
    let (mz, _) = recount::<N, L, W>(&seqs, &starts, &active, Some(z));
    for j in 0..W {
        for s in 0..5 {
            assert!(it.counts.matrix()[j][s] == mz[j][s], "iteration counts are not the alignment without the hold-out");
        }
    }
    // --- post-state
    let mut new_starts = [0usize; N];
    let mut new_active = [false; N];
    for i in 0..N {
        new_starts[i] = sampler.verif_starts()[i];
        new_active[i] = sampler.verif_is_active(i);
        assert!(new_starts[i] + W <= L, "start leaves the window outside its sequence");
        if i != z {
            assert!(new_starts[i] == starts[i], "start of a sequence other than the hold-out changed");
            assert!(new_active[i] == active[i], "membership of a sequence other than the hold-out changed");
        }
    }
    if !ZOOPS {
        assert!(new_active[z], "one-occurrence-per-sequence mode dropped a sequence");
    } else if active[z] {
        assert!(new_active[z], "a sequence that was in the motif must stay in it");
    }
    let (m1, b1) = recount::<N, L, W>(&seqs, &new_starts, &new_active, None);
    let cm = sampler.count_matrix();
    for j in 0..W {
        for s in 0..5 {
            assert!(cm.matrix()[j][s] == m1[j][s], "motif counts differ from a recount of the alignment");
        }
    }
    for s in 0..5 {
        assert!(sampler.verif_background_counts()[s] == b1[s], "background counts differ from a recount");
    }
    let total: usize = b1.iter().sum();
    if total > 0 {
        let bg = sampler.background();
        for s in 0..5 {
            assert!(bg.frequencies()[s] == (b1[s] as f32) / (total as f32), "background is not the normalised counts");
        }
    }
    crate::witness!(new_starts[z] != starts[z], "the hold-out moved");
    crate::witness!(ZOOPS && !active[z] && new_active[z], "opt: a sequence was recruited");
    core::mem::forget(sampler);
}

/// base case: the state built by the public constructor satisfies the invariant
fn init_body<const N: usize, const L: usize, const W: usize>()
where
    [StripedSequence<Dna, U32>; N]: DataSet<L, W>,
{
    set_verif_override(Some(Dispatch::Generic));
    let seqs: [[Nucleotide; L]; N] = core::array::from_fn(|_| core::array::from_fn(|_| nuc(nd::u8_in(0, 4))));
    let striped = <[StripedSequence<Dna, U32>; N] as DataSet<L, W>>::build(&seqs[..]);
    let data = SamplerData::<Dna, _, U32>::new(striped);
    let sampler = Sampler::new(&data, W, NdRng);
    let mut starts = [0usize; N];
    let active = [true; N];
    for i in 0..N {
        starts[i] = sampler.verif_starts()[i];
        assert!(starts[i] + W <= L, "initial start leaves the window outside its sequence");
        assert!(sampler.verif_is_active(i));
    }
    let (m, b) = recount::<N, L, W>(&seqs, &starts, &active, None);
    let cm = sampler.count_matrix();
    for j in 0..W {
        for s in 0..5 {
            assert!(cm.matrix()[j][s] == m[j][s], "initial motif counts differ from a recount");
        }
    }
    for s in 0..5 {
        assert!(sampler.verif_background_counts()[s] == b[s], "initial background counts differ from a recount");
    }
    crate::witness!(starts[0] == L - W && starts[N - 1] == 0, "extreme initial starts");
    core::mem::forget(sampler);
}

// Sizes: rand's integer sampling rejects draws above a zone that is the whole range
// only when the range is a power of two; with other ranges the rejection loop's exit
// condition stays symbolic and symbolic execution does not terminate. Hence the number
// of sequences N and of start positions L-W+1 are powers of two here.
//@ C16 extended 5400 sampler base case: Sampler::new, 2 sequences of length 4, width 3 (2 start positions) | mem=14 | unwindset=sampler::Sampler::<.*>::(_new|include_sequence|exclude_sequence)$#*:8;uniform::UniformInt<.*#*:3
sampler_harness!(36, c16_init_n2_l4_w3, init_body::<2, 4, 3>());
//@ C16 extended 7200 sampler step, one-occurrence mode, 2 sequences of length 4, width 3, generic scoring arm | mem=14 | unwindset=sampler::Sampler::<.*>::(_new|include_sequence|exclude_sequence)$#*:8;uniform::UniformInt<.*#*:3
sampler_harness!(36, c16_step_oops_n2_l4_w3, step_body::<2, 4, 3, false>(Dispatch::Generic));
//@ C16 extended 14400 sampler step, one-occurrence mode, 2 sequences of length 5, width 2 (4 start positions) | mem=14 | unwindset=sampler::Sampler::<.*>::(_new|include_sequence|exclude_sequence)$#*:8;uniform::UniformInt<.*#*:3
sampler_harness!(36, c16_step_oops_n2_l5_w2, step_body::<2, 5, 2, false>(Dispatch::Generic));
//@ C16 extended 14400 sampler step, zero-or-one mode, 4 sequences of length 2, width 1 | mem=14 | unwindset=sampler::Sampler::<.*>::(_new|include_sequence|exclude_sequence)$#*:8;uniform::UniformInt<.*#*:3
sampler_harness!(36, c16_step_zoops_n4_l2_w1, step_body::<4, 2, 1, true>(Dispatch::Generic));
