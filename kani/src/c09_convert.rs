//! C09 — count -> frequency -> weight -> log-odds conversions obey their definitions.
//!
//! @functions C09: pwm CountMatrix::{from_sequences,new,to_freq}; abc Pseudocounts::{from(f32),from(GenericArray)}; pwm FrequencyMatrix::{new,to_weight,to_scoring,into_scoring}; pwm WeightMatrix::{to_scoring,to_scoring_with_base,rescale}; pwm ScoringMatrix::{min_score,max_score,score_position}; abc Background::{new,from_counts,from_sequence,uniform}
//!
//! Logarithms are abstracted: `f32::log2 / log10 / ln` are replaced (kani::stub)
//! by fixed, deterministic, monotone bit-level functions with LOG(0) = -inf and
//! LOG(1) = 0, so what is decided is *which* logarithm is applied to *which*
//! value in *which* cell — not the numerical quality of libm. Counts are below
//! 2^16 and pseudocounts / frequencies sit on binary lattices so that row totals
//! are exact in any summation order.

use generic_array::GenericArray;
use lightmotif::abc::{Alphabet, Background, Dna, Nucleotide, Protein, Pseudocounts, Symbol};
use lightmotif::dense::DenseMatrix;
use lightmotif::num::{U21, U4, U5};
use lightmotif::pli::{Pipeline, Stripe};
use lightmotif::pwm::{CountMatrix, FrequencyMatrix, ScoringMatrix};
use lightmotif::seq::EncodedSequence;

use crate::c04_stripe::{any_seq, SymGen};
use crate::nd;

// --- logarithm models (also used natively in replays of these harnesses) ------------

pub fn log2_model(x: f32) -> f32 {
    if x.is_nan() || x < 0.0 {
        f32::NAN
    } else if x == 0.0 {
        f32::NEG_INFINITY
    } else if x == f32::INFINITY {
        f32::INFINITY
    } else {
        ((x.to_bits() as i32).wrapping_sub(0x3f80_0000) as f32) / 8_388_608.0
    }
}
pub fn log10_model(x: f32) -> f32 {
    log2_model(x) * 0.30103
}
pub fn ln_model(x: f32) -> f32 {
    log2_model(x) * 0.693_147_2
}

macro_rules! log_harness {
    ($unwind:literal, $name:ident, $body:expr) => {
        #[cfg_attr(kani, kani::proof)]
        #[cfg_attr(kani, kani::unwind($unwind))]
        #[cfg_attr(kani, kani::stub(alloc::fmt::format, crate::refs::fmt_format_stub))]
        #[cfg_attr(kani, kani::stub(f32::log2, crate::c09_convert::log2_model))]
        #[cfg_attr(kani, kani::stub(f32::log10, crate::c09_convert::log10_model))]
        #[cfg_attr(kani, kani::stub(f32::ln, crate::c09_convert::ln_model))]
        pub fn $name() {
            $body
        }
    };
}
pub(crate) use log_harness;

// --- counting ----------------------------------------------------------------------------

fn count_check<A: SymGen, const N: usize, const W: usize>(cm: &CountMatrix<A>, seqs: &[[A::Symbol; W]; N]) {
    assert!(cm.matrix().rows() == W);
    assert!(cm.sequence_count() == N);
    let probe = A::any_sym();
    for i in 0..W {
        let mut n = 0u32;
        for s in seqs.iter() {
            if s[i] == probe {
                n += 1;
            }
        }
        assert!(cm.matrix()[i][probe.as_index()] == n, "count differs from the number of occurrences");
    }
    crate::witness!(cm.matrix()[W - 1][probe.as_index()] == N as u32, "all sequences agree at the last position");
}

// (sequences are plain locals: lengths read back through nested containers stop
// being constants for CBMC and the row count of the matrix would become symbolic)
fn count_body3<A: SymGen, const W: usize>() {
    let seqs: [[A::Symbol; W]; 3] = [any_seq::<A, W>(), any_seq::<A, W>(), any_seq::<A, W>()];
    let e0 = EncodedSequence::<A>::new(seqs[0].to_vec());
    let e1 = EncodedSequence::<A>::new(seqs[1].to_vec());
    let e2 = EncodedSequence::<A>::new(seqs[2].to_vec());
    let cm = CountMatrix::<A>::from_sequences([&e0, &e1, &e2]).expect("equal lengths must be accepted");
    count_check::<A, 3, W>(&cm, &seqs);
}

fn count_body2<A: SymGen, const W: usize>() {
    let seqs: [[A::Symbol; W]; 2] = [any_seq::<A, W>(), any_seq::<A, W>()];
    let e0 = EncodedSequence::<A>::new(seqs[0].to_vec());
    let e1 = EncodedSequence::<A>::new(seqs[1].to_vec());
    let cm = CountMatrix::<A>::from_sequences([&e0, &e1]).expect("equal lengths must be accepted");
    count_check::<A, 2, W>(&cm, &seqs);
}

fn unequal_body() {
    let a = EncodedSequence::<Dna>::new(any_seq::<Dna, 2>().to_vec());
    let b = EncodedSequence::<Dna>::new(any_seq::<Dna, 3>().to_vec());
    let c = EncodedSequence::<Dna>::new(any_seq::<Dna, 2>().to_vec());
    let flag = nd::bool_();
    let r = if flag {
        CountMatrix::<Dna>::from_sequences([&a, &b])
    } else {
        CountMatrix::<Dna>::from_sequences([&a, &c, &b])
    };
    assert!(r.is_err(), "sequences of unequal length accepted");
    let e = CountMatrix::<Dna>::from_sequences(core::iter::empty::<EncodedSequence<Dna>>()).unwrap();
    assert!(e.matrix().rows() == 0);
    crate::witness!(flag, "two-sequence case");
}

// --- frequencies, weights, scores ------------------------------------------------------------

fn any_counts<const M: usize>() -> (DenseMatrix<u32, U5>, [[u32; 5]; M]) {
    let mut d = DenseMatrix::<u32, U5>::new(M);
    let mut sh = [[0u32; 5]; M];
    for i in 0..M {
        for j in 0..5 {
            // small counts: the float divisions downstream are bit-blasted and the proof
            // has to equate two copies of the same divider circuit (values pass through
            // memory, so CBMC does not share them); with wide inputs no verdict in 60 min
            let x = nd::u8_in(0, 7) as u32;
            d[i][j] = x;
            sh[i][j] = x;
        }
    }
    (d, sh)
}

fn any_pseudo() -> [f32; 5] {
    core::array::from_fn(|_| (nd::u8_in(0, 4) as f32) / 4.0)
}

/// background on the lattice k/8 that `Background::new` accepts
fn any_background() -> (Background<Dna>, [f32; 5]) {
    let k: [u8; 5] = core::array::from_fn(|_| nd::u8_in(0, 8));
    nd::assume(k[0] as u32 + k[1] as u32 + k[2] as u32 + k[3] as u32 + k[4] as u32 == 8);
    let f: [f32; 5] = core::array::from_fn(|i| (k[i] as f32) / 8.0);
    let bg = Background::<Dna>::new(GenericArray::from(f)).expect("valid background rejected");
    (bg, f)
}

fn freq_body<const M: usize>() {
    let (d, c) = any_counts::<M>();
    let p = any_pseudo();
    let cm = CountMatrix::<Dna>::new(d).unwrap();
    let fm = cm.to_freq(Pseudocounts::<Dna>::from(GenericArray::from(p)));
    for i in 0..M {
        // Row total with the same float expression as the library (`iter().sum()` of
        // count + pseudocount). On this lattice every summation order gives the same
        // exact value, but proving that is beyond the solver: a legal re-association
        // in the library would make this instance time out (inconclusive), never fail.
        let terms: [f32; 5] = core::array::from_fn(|j| c[i][j] as f32 + p[j]);
        let total: f32 = terms.iter().sum();
        nd::assume(total > 0.0);
        let mut sum = 0.0f32;
        for j in 0..5 {
            let want = (c[i][j] as f32 + p[j]) / total;
            assert!(fm.matrix()[i][j] == want, "frequency is not (count + pseudocount) / row total");
            sum += fm.matrix()[i][j];
        }
        assert!((sum - 1.0).abs() <= 1e-5, "frequency row does not sum to one");
    }
    // scalar pseudocount: applied to every symbol but the wildcard
    let q = (nd::u8_in(0, 4) as f32) / 4.0;
    let fq = cm.to_freq(q);
    let terms: [f32; 5] = core::array::from_fn(|j| c[0][j] as f32 + if j < 4 { q } else { 0.0 });
    let total: f32 = terms.iter().sum();
    nd::assume(total > 0.0);
    assert!(fq.matrix()[0][4] == (c[0][4] as f32) / total, "scalar pseudocount leaked into the wildcard");
    assert!(fq.matrix()[0][1] == (c[0][1] as f32 + q) / total);
    crate::witness!(c[M - 1][2] > 0 && p[2] > 0.0, "non-trivial counts");
}

fn any_freq<const M: usize>() -> (DenseMatrix<f32, U5>, [[f32; 5]; M]) {
    let mut d = DenseMatrix::<f32, U5>::new(M);
    let mut sh = [[0f32; 5]; M];
    for i in 0..M {
        for j in 0..5 {
            let x = (nd::u8_in(0, 80) as f32) / 64.0;
            d[i][j] = x;
            sh[i][j] = x;
        }
    }
    (d, sh)
}

/// `FrequencyMatrix::new` accepts exactly the rows within 0.01 of one.
fn freq_validation_body<const M: usize>() {
    let (d, f) = any_freq::<M>();
    let r = FrequencyMatrix::<Dna>::new(d);
    let mut valid = true;
    for i in 0..M {
        // lattice sums are exact, so the summation order does not matter
        let s = f[i][0] + f[i][1] + f[i][2] + f[i][3] + f[i][4];
        if !((s - 1.0).abs() < 0.01) {
            valid = false;
        }
    }
    assert!(r.is_ok() == valid, "frequency validation disagrees with its definition");
    crate::witness!(valid && f[0][4] > 0.0, "valid frequencies with a non-zero wildcard");
    core::mem::forget(r);
}

/// A frequency matrix obtained through the real `to_freq` (no `Result` with a
/// data-dependent discriminant in between: CBMC would lose the row count).
pub fn freq_from_counts<const M: usize>() -> (FrequencyMatrix<Dna>, [[f32; 5]; M]) {
    let (d, _) = any_counts::<M>();
    let cm = CountMatrix::<Dna>::new(d).unwrap();
    let q = (nd::u8_in(0, 3) as f32) / 4.0;
    let fm = cm.to_freq(q);
    let mut f = [[0f32; 5]; M];
    for i in 0..M {
        for j in 0..5 {
            f[i][j] = fm.matrix()[i][j];
        }
        nd::assume(!f[i][0].is_nan());
    }
    (fm, f)
}

/// quick-tier variant: counts in 0..=1, pseudocount 0.5
fn freq_from_counts_small<const M: usize>() -> (FrequencyMatrix<Dna>, [[f32; 5]; M]) {
    let mut d = DenseMatrix::<u32, U5>::new(M);
    for i in 0..M {
        for j in 0..5 {
            d[i][j] = nd::u8_in(0, 1) as u32;
        }
    }
    let cm = CountMatrix::<Dna>::new(d).unwrap();
    let fm = cm.to_freq(0.5);
    let mut f = [[0f32; 5]; M];
    for i in 0..M {
        for j in 0..5 {
            f[i][j] = fm.matrix()[i][j];
        }
    }
    (fm, f)
}

fn weight_score_body<const M: usize>() {
    weight_score_with::<M>(freq_from_counts::<M>());
}

fn weight_score_small_body<const M: usize>() {
    weight_score_with::<M>(freq_from_counts_small::<M>());
}

fn weight_score_with<const M: usize>(input: (FrequencyMatrix<Dna>, [[f32; 5]; M])) {
    let (fm, f) = input;
    let (bg, b) = any_background();
    let wm = fm.to_weight(bg.clone());
    let two_step = wm.to_scoring();
    let one_step = fm.to_scoring(bg.clone());
    for i in 0..M {
        for j in 0..5 {
            let w = if b[j] == 0.0 { 0.0 } else { f[i][j] / b[j] };
            assert!(wm.matrix()[i][j] == w, "weight is not frequency / background");
            let s = if b[j] == 0.0 { f32::NEG_INFINITY } else { log2_model(f[i][j] / b[j]) };
            assert!(one_step.matrix()[i][j] == s, "score is not log2(frequency / background)");
            assert!(two_step.matrix()[i][j] == one_step.matrix()[i][j], "one-step and two-step routes differ");
        }
    }
    // other bases
    let s10 = wm.to_scoring_with_base(10.0);
    let s3 = wm.to_scoring_with_base(3.0);
    for j in 0..5 {
        let w = wm.matrix()[0][j];
        assert!(s10.matrix()[0][j] == log10_model(w), "base 10 does not use log10 of the weight");
        assert!(s3.matrix()[0][j] == ln_model(w) / ln_model(3.0), "base b does not use ln(weight)/ln(b)");
    }
    crate::witness!(b[4] == 0.0 && b[0] > 0.0 && f[0][0] > 0.0, "zero-frequency wildcard background");
}

fn rescale_body() {
    let (fm, f) = freq_from_counts::<1>();
    let (bg1, b1) = any_background();
    let (bg2, b2) = any_background();
    nd::assume(b1[0] > 0.0 && b1[1] > 0.0 && b1[2] > 0.0 && b1[3] > 0.0);
    nd::assume(b2[0] > 0.0 && b2[1] > 0.0 && b2[2] > 0.0 && b2[3] > 0.0);
    let wm = fm.to_weight(bg1);
    let w2 = wm.rescale(bg2.clone());
    for j in 0..5 {
        assert!(w2.background().frequencies()[j] == b2[j]);
    }
    for j in 0..4 {
        let w1 = f[0][j] / b1[j];
        if b1 == b2 {
            assert!(w2.matrix()[0][j] == w1);
        } else {
            assert!(w2.matrix()[0][j] == w1 * (b1[j] / b2[j]), "rescale is not weight * old / new");
        }
    }
    crate::witness!(b1[0] != b2[0], "different backgrounds");
}

// --- min / max score ---------------------------------------------------------------------------

fn minmax_body<const M: usize>() {
    let mut d = DenseMatrix::<f32, U5>::new(M);
    for i in 0..M {
        for j in 0..5 {
            // k/8 for |k| <= 127, or a huge magnitude (sums overflow to +-inf): with
            // arbitrary finite floats the solver has to prove monotonicity of rounded
            // addition and produced no verdict in 30 minutes
            let k = nd::i8_();
            d[i][j] = match k {
                -128 => -3.0e38,
                127 => 3.0e38,
                _ => (k as f32) / 8.0,
            };
        }
    }
    let pssm = ScoringMatrix::<Dna>::new(Background::uniform(), d);
    let win: [Nucleotide; M] = core::array::from_fn(|_| crate::refs::nuc(nd::u8_in(0, 3)));
    let st = <Pipeline<Dna, _> as Stripe<Dna, U4>>::stripe(&Pipeline::generic(), &win[..]);
    let mut st = st;
    st.configure(&pssm);
    let s = pssm.score_position(&st, 0);
    let (lo, hi) = (pssm.min_score(), pssm.max_score());
    assert!(lo <= s, "a wildcard-free window scores below min_score");
    assert!(s <= hi, "a wildcard-free window scores above max_score");
    crate::witness!(lo < s && s < hi, "strictly inside");
}

// --- backgrounds ----------------------------------------------------------------------------------

fn background_new_body() {
    // lattice k/64 with k in -8..=72: sums are exact
    let k: [i8; 5] = core::array::from_fn(|_| {
        let x = nd::i8_();
        nd::assume(x >= -8 && x <= 72);
        x
    });
    let f: [f32; 5] = core::array::from_fn(|i| (k[i] as f32) / 64.0);
    let r = Background::<Dna>::new(GenericArray::from(f));
    let mut ok = true;
    let mut sum = 0i32;
    for i in 0..5 {
        if k[i] < 0 || k[i] > 64 {
            ok = false;
        }
        sum += k[i] as i32;
    }
    ok = ok && sum == 64;
    assert!(r.is_ok() == ok, "Background::new validity differs from its definition");
    if let Ok(bg) = r {
        for i in 0..5 {
            assert!(bg.frequencies()[i] == f[i]);
        }
    }
    crate::witness!(ok && k[0] == 64, "degenerate valid background");
}

fn background_counts_body() {
    let c: [usize; 5] = core::array::from_fn(|_| nd::u8_in(0, 7) as usize);
    let total: usize = c.iter().sum();
    let r = Background::<Dna>::from_counts(&GenericArray::from(c));
    assert!(r.is_ok() == (total > 0), "from_counts must reject exactly the all-zero counts");
    if let Ok(bg) = r {
        for j in 0..5 {
            assert!(bg.frequencies()[j] == (c[j] as f32) / (total as f32));
        }
    }
    crate::witness!(total > 0 && c[4] > 0, "non-zero wildcard count");
}

/// from_sequence: counts of a linear sequence, wildcard excluded on request
fn background_sequence_body() {
    let seq = any_seq::<Dna, 3>();
    let unknown = nd::bool_();
    let r2 = Background::<Dna>::from_sequence(&seq[..], unknown);
    let mut n = [0usize; 5];
    for s in seq.iter() {
        n[s.as_index()] += 1;
    }
    let wild = if unknown { n[4] } else { 0 };
    let denom = n[0] + n[1] + n[2] + n[3] + wild;
    assert!(r2.is_ok() == (denom > 0));
    if let Ok(bg) = r2 {
        assert!(bg.frequencies()[4] == (wild as f32) / (denom as f32));
        assert!(bg.frequencies()[2] == (n[2] as f32) / (denom as f32));
    }
    crate::witness!(denom == 2 && !unknown, "two known symbols, wildcard excluded");
}

//@ C09 quick 800 CountMatrix::from_sequences, DNA, 3 sequences x 2 symbols, all symbolic
harness!(none, 8, c09_count_dna_n3_w2, count_body3::<Dna, 2>());
//@ C09 quick 800 CountMatrix::from_sequences, protein, 2 sequences x 2 symbols
harness!(none, 24, c09_count_protein_n2_w2, count_body2::<Protein, 2>());
//@ C09 quick 800 CountMatrix::from_sequences rejects unequal lengths, accepts the empty set
harness!(none, 8, c09_count_unequal, unequal_body());
//@ C09 quick 800 to_weight + to_scoring (one-step == two-step) + bases 10 and 3, 1 row, counts in {0,1}, pseudocount 0.5, symbolic background k/8
log_harness!(8, c09_weight_score_small_m1, weight_score_small_body::<1>());
//@ C09 extended 7200 to_freq: 1 row, counts <= 7, pseudocount vector k/4 (k <= 4) and scalar pseudocount
harness!(none, 8, c09_freq_m1, freq_body::<1>());
//@ C09 extended 10800 to_freq: 2 rows
harness!(none, 8, c09_freq_m2, freq_body::<2>());
//@ C09 quick 800 FrequencyMatrix::new accepts exactly the rows within 0.01 of one (lattice k/64), 2 rows
harness!(none, 8, c09_freq_validation_m2, freq_validation_body::<2>());
//@ C09 extended 10800 to_weight + to_scoring (one-step == two-step) + bases 10 and 3, 1 row, symbolic counts / pseudocount / background
log_harness!(8, c09_weight_score_m1, weight_score_body::<1>());
//@ C09 quick 800 WeightMatrix::rescale, symbolic old/new backgrounds
log_harness!(8, c09_rescale, rescale_body());
//@ C09 quick 800 min_score <= score_position <= max_score, 2 rows, cells k/8 or +-3e38, wildcard-free window
harness!(none, 8, c09_minmax_m2, minmax_body::<2>());
//@ C09 quick 800 Background::new accepts exactly [0,1]-valued vectors summing to one (lattice k/64)
harness!(none, 8, c09_background_new, background_new_body());
//@ C09 quick 800 Background::from_counts
harness!(none, 8, c09_background_counts, background_counts_body());
//@ C09 quick 800 Background::from_sequence (3 symbolic symbols, wildcard counted or not)
harness!(none, 8, c09_background_sequence, background_sequence_body());
//@ C09 extended 7200 weight/score conversions, 2 rows
log_harness!(8, c09_weight_score_m2, weight_score_body::<2>());
//@ C09 thorough 3642 min/max score bounds, 3 rows
harness!(none, 8, c09_minmax_m3, minmax_body::<3>());
//@ C09 quick 800 CountMatrix::from_sequences, DNA, 3 sequences x 3 symbols
harness!(none, 8, c09_count_dna_n3_w3, count_body3::<Dna, 3>());
