//! Reference models and helpers shared by the harnesses.

use lightmotif::abc::{AminoAcid, Nucleotide};

/// Stub for `alloc::fmt::format`: panic / error messages are never the subject.
pub fn fmt_format_stub(_args: core::fmt::Arguments<'_>) -> String {
    String::new()
}

pub const DNA_LETTERS: &[u8; 5] = b"ACTGN";
pub const PROTEIN_LETTERS: &[u8; 21] = b"ACDEFGHIKLMNPQRSTVWYX";

/// Specification of DNA encoding: index of the byte in "ACTGN", if any.
pub fn dna_index(b: u8) -> Option<u8> {
    let mut i = 0;
    while i < 5 {
        if DNA_LETTERS[i] == b {
            return Some(i as u8);
        }
        i += 1;
    }
    None
}

/// Specification of protein encoding: index of the byte in "ACDEFGHIKLMNPQRSTVWYX".
pub fn protein_index(b: u8) -> Option<u8> {
    let mut i = 0;
    while i < 21 {
        if PROTEIN_LETTERS[i] == b {
            return Some(i as u8);
        }
        i += 1;
    }
    None
}

/// Nucleotide from an index 0..=4 (no unsafe, no transmute).
pub fn nuc(i: u8) -> Nucleotide {
    match i {
        0 => Nucleotide::A,
        1 => Nucleotide::C,
        2 => Nucleotide::T,
        3 => Nucleotide::G,
        _ => Nucleotide::N,
    }
}

/// Amino acid from an index 0..=20.
pub fn aa(i: u8) -> AminoAcid {
    use AminoAcid::*;
    match i {
        0 => A,
        1 => C,
        2 => D,
        3 => E,
        4 => F,
        5 => G,
        6 => H,
        7 => I,
        8 => K,
        9 => L,
        10 => M,
        11 => N,
        12 => P,
        13 => Q,
        14 => R,
        15 => S,
        16 => T,
        17 => V,
        18 => W,
        19 => Y,
        _ => X,
    }
}
