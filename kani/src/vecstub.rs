//! Fixed-capacity model of `Vec::new` + `Vec::push` (Kani only).
//!
//! CBMC runs out of memory on a `Vec` whose length is data-dependent: every
//! `push` carries the re-allocation path with a symbolic new capacity. Harnesses
//! whose code under test collects a data-dependent number of items (threshold
//! lists, scanner hits) substitute these two functions: `Vec::new` reserves
//! `CAP` slots up front and `push` *asserts* (not assumes) that a slot is free,
//! so the only thing not modelled is the allocator's growth policy.

#[cfg(kani)]
pub const CAP: usize = 72;

#[cfg(kani)]
pub fn vec_new<T>() -> Vec<T> {
    Vec::with_capacity(CAP)
}

/// Small variant for harnesses that provably push at most 8 items.
#[cfg(kani)]
pub fn vec_new8<T>() -> Vec<T> {
    Vec::with_capacity(8)
}

#[cfg(kani)]
pub fn vec_push<T, A: core::alloc::Allocator>(v: &mut Vec<T, A>, value: T) {
    let len = v.len();
    assert!(len < v.capacity(), "vecstub: fixed capacity exceeded");
    unsafe {
        core::ptr::write(v.as_mut_ptr().add(len), value);
        v.set_len(len + 1);
    }
}
