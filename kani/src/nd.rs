//! Source of nondeterminism shared by the Kani harnesses and their native replay.
//!
//! Under `cfg(kani)` every function is `kani::any()` of a primitive type. In a
//! native build the values are popped, in call order, from a queue filled from
//! the concrete values Kani printed for a counterexample (`--concrete-playback
//! print`), so that the *same harness body* runs against the real build with the
//! real intrinsics.

#[cfg(not(kani))]
mod native {
    use std::cell::{Cell, RefCell};
    use std::collections::VecDeque;

    thread_local! {
        pub static QUEUE: RefCell<VecDeque<Vec<u8>>> = RefCell::new(VecDeque::new());
        /// search mode: values come from a xorshift generator and are recorded
        pub static SEARCH: Cell<u64> = Cell::new(0);
        pub static DRAWN: RefCell<Vec<Vec<u8>>> = RefCell::new(Vec::new());
    }

    /// Marker payload of the panic raised by a violated assumption in search mode.
    pub struct AssumeFailed;

    pub fn start_search(seed: u64) {
        SEARCH.with(|s| s.set(seed | 1));
        DRAWN.with(|d| d.borrow_mut().clear());
    }

    pub fn searching() -> bool {
        SEARCH.with(|s| s.get() != 0)
    }

    pub fn drawn() -> Vec<Vec<u8>> {
        DRAWN.with(|d| d.borrow().clone())
    }

    fn next_random<const N: usize>() -> [u8; N] {
        let mut out = [0u8; N];
        SEARCH.with(|s| {
            let mut x = s.get();
            x ^= x << 13;
            x ^= x >> 7;
            x ^= x << 17;
            s.set(x);
            // small values are much more likely to satisfy range assumptions
            let v = match (x >> 60) & 3 {
                0 => x % 8,
                1 => x % 40,
                2 => x % 256,
                _ => x >> 8,
            };
            let b = v.to_le_bytes();
            for i in 0..N.min(8) {
                out[i] = b[i];
            }
        });
        DRAWN.with(|d| d.borrow_mut().push(out.to_vec()));
        out
    }

    /// search mode: replace the value recorded last (range helpers map instead of reject)
    pub fn remap_last(v: Vec<u8>) {
        DRAWN.with(|d| {
            if let Some(last) = d.borrow_mut().last_mut() {
                *last = v;
            }
        });
    }

    pub fn load(vals: Vec<Vec<u8>>) {
        QUEUE.with(|q| *q.borrow_mut() = vals.into());
    }

    pub fn remaining() -> usize {
        QUEUE.with(|q| q.borrow().len())
    }

    pub fn pop<const N: usize>() -> [u8; N] {
        if searching() {
            return next_random::<N>();
        }
        let v = QUEUE.with(|q| q.borrow_mut().pop_front());
        match v {
            Some(v) if v.len() == N => {
                let mut a = [0u8; N];
                a.copy_from_slice(&v);
                a
            }
            Some(v) => {
                eprintln!("REPLAY-MISALIGNED: wanted {} bytes, got {}", N, v.len());
                std::process::exit(4);
            }
            None => {
                eprintln!("REPLAY-EXHAUSTED: no concrete value left");
                std::process::exit(4);
            }
        }
    }
}

#[cfg(not(kani))]
pub use native::{drawn, load, remaining, start_search, AssumeFailed};

macro_rules! nd_prim {
    ($name:ident, $t:ty, $n:expr) => {
        #[inline(never)]
        pub fn $name() -> $t {
            #[cfg(kani)]
            {
                kani::any()
            }
            #[cfg(not(kani))]
            {
                <$t>::from_le_bytes(native::pop::<$n>())
            }
        }
    };
}

nd_prim!(u8_, u8, 1);
nd_prim!(i8_, i8, 1);
nd_prim!(u16_, u16, 2);
nd_prim!(i16_, i16, 2);
nd_prim!(u32_, u32, 4);
nd_prim!(i32_, i32, 4);
nd_prim!(u64_, u64, 8);
nd_prim!(i64_, i64, 8);
nd_prim!(usize_, usize, 8);

/// Arbitrary f32 bit pattern.
#[inline(never)]
pub fn f32_() -> f32 {
    #[cfg(kani)]
    {
        kani::any()
    }
    #[cfg(not(kani))]
    {
        f32::from_le_bytes(native::pop::<4>())
    }
}

#[inline(never)]
pub fn bool_() -> bool {
    #[cfg(kani)]
    {
        kani::any()
    }
    #[cfg(not(kani))]
    {
        native::pop::<1>()[0] != 0
    }
}

/// Arbitrary array of bytes (one nondeterministic value per element).
pub fn bytes<const N: usize>() -> [u8; N] {
    let mut a = [0u8; N];
    let mut i = 0;
    while i < N {
        a[i] = u8_();
        i += 1;
    }
    a
}

/// `kani::assume`; in a native replay a violated assumption means the concrete
/// values do not describe an admissible input (exit code 3 = not a reproduction).
#[inline(always)]
pub fn assume(c: bool) {
    #[cfg(kani)]
    kani::assume(c);
    #[cfg(not(kani))]
    if !c {
        if native::searching() {
            std::panic::panic_any(native::AssumeFailed);
        }
        eprintln!("REPLAY-ASSUME-VIOLATED");
        std::process::exit(3);
    }
}

/// Reachability witness: must be reported SATISFIED for the harness to count.
#[macro_export]
macro_rules! witness {
    ($c:expr, $m:expr) => {{
        #[cfg(kani)]
        kani::cover!($c, $m);
        #[cfg(not(kani))]
        {
            let _ = $c;
        }
    }};
}

/// A value in `lo..=hi` (inclusive), as a usize.
pub fn usize_in(lo: usize, hi: usize) -> usize {
    let x = usize_();
    #[cfg(not(kani))]
    if native::searching() {
        let y = lo + x % (hi - lo + 1);
        native::remap_last(y.to_le_bytes().to_vec());
        return y;
    }
    assume(x >= lo && x <= hi);
    x
}

/// A value in `lo..=hi` (inclusive), as a u8.
pub fn u8_in(lo: u8, hi: u8) -> u8 {
    let x = u8_();
    #[cfg(not(kani))]
    if native::searching() {
        let y = lo + x % (hi - lo + 1);
        native::remap_last(vec![y]);
        return y;
    }
    assume(x >= lo && x <= hi);
    x
}
