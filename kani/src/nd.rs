//! Source of nondeterminism shared by the Kani harnesses and their native replay.
//!
//! Under `cfg(kani)` every function is `kani::any()` of a primitive type. In a
//! native build the values are popped, in call order, from a queue filled from
//! the concrete values Kani printed for a counterexample (`--concrete-playback
//! print`), so that the *same harness body* runs against the real build with the
//! real intrinsics.

#[cfg(not(kani))]
mod native {
    use std::cell::RefCell;
    use std::collections::VecDeque;

    thread_local! {
        pub static QUEUE: RefCell<VecDeque<Vec<u8>>> = RefCell::new(VecDeque::new());
    }

    pub fn load(vals: Vec<Vec<u8>>) {
        QUEUE.with(|q| *q.borrow_mut() = vals.into());
    }

    pub fn remaining() -> usize {
        QUEUE.with(|q| q.borrow().len())
    }

    pub fn pop<const N: usize>() -> [u8; N] {
        let v = QUEUE.with(|q| q.borrow_mut().pop_front());
        match v {
            Some(v) if v.len() == N => {
                let mut a = [0u8; N];
                a.copy_from_slice(&v);
                a
            }
            Some(v) => {
                eprintln!("REPLAY-MISALIGNED: wanted {} bytes, got {}", N, v.len());
                std::process::exit(4);
            }
            None => {
                eprintln!("REPLAY-EXHAUSTED: no concrete value left");
                std::process::exit(4);
            }
        }
    }
}

#[cfg(not(kani))]
pub use native::{load, remaining};

macro_rules! nd_prim {
    ($name:ident, $t:ty, $n:expr) => {
        #[inline(never)]
        pub fn $name() -> $t {
            #[cfg(kani)]
            {
                kani::any()
            }
            #[cfg(not(kani))]
            {
                <$t>::from_le_bytes(native::pop::<$n>())
            }
        }
    };
}

nd_prim!(u8_, u8, 1);
nd_prim!(i8_, i8, 1);
nd_prim!(u16_, u16, 2);
nd_prim!(i16_, i16, 2);
nd_prim!(u32_, u32, 4);
nd_prim!(i32_, i32, 4);
nd_prim!(u64_, u64, 8);
nd_prim!(i64_, i64, 8);
nd_prim!(usize_, usize, 8);

/// Arbitrary f32 bit pattern.
#[inline(never)]
pub fn f32_() -> f32 {
    #[cfg(kani)]
    {
        kani::any()
    }
    #[cfg(not(kani))]
    {
        f32::from_le_bytes(native::pop::<4>())
    }
}

#[inline(never)]
pub fn bool_() -> bool {
    #[cfg(kani)]
    {
        kani::any()
    }
    #[cfg(not(kani))]
    {
        native::pop::<1>()[0] != 0
    }
}

/// Arbitrary array of bytes (one nondeterministic value per element).
pub fn bytes<const N: usize>() -> [u8; N] {
    let mut a = [0u8; N];
    let mut i = 0;
    while i < N {
        a[i] = u8_();
        i += 1;
    }
    a
}

/// `kani::assume`; in a native replay a violated assumption means the concrete
/// values do not describe an admissible input (exit code 3 = not a reproduction).
#[inline(always)]
pub fn assume(c: bool) {
    #[cfg(kani)]
    kani::assume(c);
    #[cfg(not(kani))]
    if !c {
        eprintln!("REPLAY-ASSUME-VIOLATED");
        std::process::exit(3);
    }
}

/// Reachability witness: must be reported SATISFIED for the harness to count.
#[macro_export]
macro_rules! witness {
    ($c:expr, $m:expr) => {{
        #[cfg(kani)]
        kani::cover!($c, $m);
        #[cfg(not(kani))]
        {
            let _ = $c;
        }
    }};
}

/// A value in `lo..=hi` (inclusive), as a usize.
pub fn usize_in(lo: usize, hi: usize) -> usize {
    let x = usize_();
    assume(x >= lo && x <= hi);
    x
}

/// A value in `lo..=hi` (inclusive), as a u8.
pub fn u8_in(lo: u8, hi: u8) -> u8 {
    let x = u8_();
    assume(x >= lo && x <= hi);
    x
}
