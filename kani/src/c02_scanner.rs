//! C02 / C03 — scanner hits and scanner best hit (control layer).
//!
//! @functions C02: scan.rs Scanner::{new,threshold,block_size,next}; scan.rs Hit::new; pwm ScoringMatrix::{to_discrete,score_position}; pwm DiscreteMatrix::scale; pli Score<u8>::score_rows_into (generic) / avx2::score_u8_avx2_shuffle; pli Maximum<u8>::max (generic) / avx2::max_u8_avx2; pli Threshold<u8>::threshold; seq.rs Index<usize>, configure
//! @functions C03: scan.rs Scanner::max (Iterator::max override) after 0..2 next() calls; same callees as C02
//!
//! Layering (DESIGN.md C02): pre-filter soundness for *symbolic* matrices is C08,
//! the block primitives are C01/C07; here the matrix comes from a fixed list so
//! that discretisation constant-folds, while the sequence (content and length),
//! the threshold, the dispatcher arm and the block size range over everything
//! the instance admits. `Vec::new`/`Vec::push` are the fixed-capacity model of
//! `vecstub.rs` (the hit buffer and candidate list have data-dependent lengths).
//!
//! The number of qualifying positions is assumed <= K (K = 2 or 3) so that K+1
//! calls of `next()` exhaust the scanner; which positions qualify is free.

use lightmotif::abc::{Background, Dna, Nucleotide, Symbol};
use lightmotif::dense::DenseMatrix;
use lightmotif::num::{U32, U5};
use lightmotif::pli::dispatch::{set_verif_override, Dispatch};
use lightmotif::pwm::ScoringMatrix;
use lightmotif::scan::{Hit, Scanner};
use lightmotif::seq::StripedSequence;

use crate::c01_score::MAXL;
use crate::nd;

const NI: f32 = f32::NEG_INFINITY;

/// The fixed matrix list (index = `MX`).
pub fn matrix(mx: usize) -> (ScoringMatrix<Dna>, &'static [[f32; 5]]) {
    static M0: [[f32; 5]; 2] = [[2.0, -1.0, -3.0, 0.0, NI], [-2.0, 1.0, 0.0, 3.0, NI]];
    static M1: [[f32; 5]; 1] = [[1.0, 0.0, -1.0, 2.0, NI]];
    // rounding to bytes reorders near-ties: 1/3-steps against 255 levels
    static M2: [[f32; 5]; 3] = [
        [0.0, 0.3125, 0.625, 1.0, NI],
        [0.0, 0.375, 0.6875, 1.0, NI],
        [0.0625, 0.25, 0.75, 0.9375, NI],
    ];
    // finite wildcard column
    static M3: [[f32; 5]; 2] = [[1.0, 2.0, 3.0, 4.0, 2.5], [4.0, 3.0, 2.0, 1.0, 0.5]];
    // every row constant (scale factor 0)
    static M4: [[f32; 5]; 2] = [[1.0, 1.0, 1.0, 1.0, NI], [-2.0, -2.0, -2.0, -2.0, NI]];
    // negative only, one dominant symbol, sum of rounded-up cells > 255
    static M5: [[f32; 5]; 3] = [
        [-0.125, -7.0, -7.5, -6.0, NI],
        [-5.0, -0.25, -6.5, -7.0, NI],
        [-6.0, -5.5, -0.0625, -7.25, NI],
    ];
    let rows: &'static [[f32; 5]] = match mx {
        0 => &M0,
        1 => &M1,
        2 => &M2,
        3 => &M3,
        4 => &M4,
        _ => &M5,
    };
    let d = DenseMatrix::<f32, U5>::from_rows(rows.iter());
    (ScoringMatrix::new(Background::uniform(), d), rows)
}

/// Striped DNA sequence with R rows and *concrete* length L (symbolic content).
/// A symbolic length makes the row count of every score buffer symbolic (the
/// `L < M` early return of `score_rows_into` merges a 0-row and an R-row matrix)
/// and multiplies the size of the encoding by the unwinding bound (measured:
/// out of memory), so lengths are enumerated per instance here.
fn striped_fixed<const R: usize, const L: usize>() -> (StripedSequence<Dna, U32>, [Nucleotide; MAXL]) {
    let mut m = DenseMatrix::<Nucleotide, U32>::new(R);
    let mut lin = [Nucleotide::N; MAXL];
    for c in 0..32 {
        for r in 0..R {
            let i = c * R + r;
            let s = if i < L { crate::refs::nuc(nd::u8_in(0, 4)) } else { Nucleotide::N };
            m[r][c] = s;
            lin[i] = s;
        }
    }
    (StripedSequence::<Dna, U32>::verif_new_unchecked(m, L), lin)
}

fn ref_score(rows: &[[f32; 5]], lin: &[Nucleotide; MAXL], i: usize) -> f32 {
    let mut e = 0.0f32;
    for j in 0..rows.len() {
        e += rows[j][lin[i + j].as_index()];
    }
    e
}

/// Input restriction that keeps the encoding small: at most `KC` cells of the whole
/// score matrix reach the byte threshold (they are the candidates the scanner
/// re-scores one by one). Computed from the public discretisation API, cell by
/// cell, padding cells included. The candidate loops of `next()` / `max()` are
/// unwound KC+2 times (per-loop `--unwindset`, checked by unwinding assertions).
pub const KC: usize = 4;

fn assume_few_candidates<const R: usize>(pssm: &ScoringMatrix<Dna>, lin: &[Nucleotide; MAXL], t: f32) {
    let dm = pssm.to_discrete();
    let tb = dm.scale(t);
    let m = dm.matrix().rows();
    let mut cands = 0usize;
    for c in 0..32 {
        for r in 0..R {
            let i = c * R + r;
            let mut b = 0u8;
            for j in 0..m {
                b = b.saturating_add(dm.matrix()[j][lin[i + j].as_index()]);
            }
            if b >= tb {
                cands += 1;
            }
        }
    }
    nd::assume(cands <= KC);
}

fn any_threshold() -> f32 {
    // multiples of 1/16 in [-40, 40]: below every minimum and above every maximum of the list
    let k = nd::i16_();
    nd::assume(k >= -640 && k <= 640);
    (k as f32) / 16.0
}

/// C02: iterate to exhaustion.
fn collect_body<const MX: usize, const R: usize, const L: usize, const BLOCK: usize, const K: usize>(arm: Dispatch) {
    set_verif_override(Some(arm));
    let (pssm, rows) = matrix(MX);
    let m = rows.len();
    let (mut st, lin) = striped_fixed::<R, L>();
    let l = L;
    st.configure(&pssm);
    let t = any_threshold();
    // oracle: qualifying positions
    let mut count = 0usize;
    let n = if l >= m { l + 1 - m } else { 0 };
    for c in 0..32 {
        for r in 0..R {
            let i = c * R + r;
            if i < n && ref_score(rows, &lin, i) >= t {
                count += 1;
            }
        }
    }
    nd::assume(count <= K);
    assume_few_candidates::<R>(&pssm, &lin, t);
    let mut scanner = Scanner::new(&pssm, &st);
    scanner.threshold(t);
    scanner.block_size(BLOCK);
    let mut got = [usize::MAX; 4];
    let mut returned = 0usize;
    let mut exhausted = false;
    for k in 0..K + 1 {
        match scanner.next() {
            None => {
                exhausted = true;
                break;
            }
            Some(hit) => {
                let p = hit.position();
                assert!(p < n, "hit outside [0, L-M]");
                let want = ref_score(rows, &lin, p);
                assert!(hit.score() == want, "hit carries a wrong score");
                assert!(want >= t, "hit below the threshold");
                for q in 0..k {
                    assert!(got[q] != p, "position yielded twice");
                }
                got[k] = p;
                returned += 1;
            }
        }
    }
    assert!(exhausted, "scanner yields more hits than qualifying positions");
    assert!(returned == count, "a qualifying position was not yielded");
    crate::witness!(count == K && n > 0 && (got[0] == n - 1 || got[1] == n - 1), "opt: K hits, one at the last position");
    crate::witness!(l < m, "opt: sequence shorter than the motif");
    core::mem::forget(scanner);
}

/// Striped sequence of concrete length L: a concrete background symbol everywhere
/// except at `spots`, which hold symbolic symbols.
fn striped_sparse<const R: usize, const L: usize>(
    background: u8,
    spots: &[usize],
) -> (StripedSequence<Dna, U32>, [Nucleotide; MAXL]) {
    let mut mat = DenseMatrix::<Nucleotide, U32>::new(R);
    let mut lin = [Nucleotide::N; MAXL];
    for c in 0..32 {
        for r in 0..R {
            let i = c * R + r;
            let mut s = if i < L { crate::refs::nuc(background) } else { Nucleotide::N };
            for &p in spots.iter() {
                if p == i && i < L {
                    s = crate::refs::nuc(nd::u8_in(0, 4));
                }
            }
            mat[r][c] = s;
            lin[i] = s;
        }
    }
    (StripedSequence::<Dna, U32>::verif_new_unchecked(mat, L), lin)
}

/// C03 counterpart of `collect_sparse_body` (concrete threshold, sparse symbolic symbols).
fn max_sparse_body<const MX: usize, const R: usize, const L: usize, const BLOCK: usize, const PRE: usize>(
    arm: Dispatch,
    t: f32,
    background: u8,
    spots: &[usize],
) {
    set_verif_override(Some(arm));
    let (pssm, rows) = matrix(MX);
    let m = rows.len();
    let (mut st, lin) = striped_sparse::<R, L>(background, spots);
    st.configure(&pssm);
    let n = if L >= m { L + 1 - m } else { 0 };
    assume_few_candidates::<R>(&pssm, &lin, t);
    let mut scanner = Scanner::new(&pssm, &st);
    scanner.threshold(t);
    scanner.block_size(BLOCK);
    let mut consumed = [usize::MAX; 2];
    for k in 0..PRE {
        if let Some(hit) = scanner.next() {
            assert!(hit.position() < n);
            consumed[k] = hit.position();
        }
    }
    let best: Option<Hit> = Iterator::max(scanner);
    let mut top = f32::NEG_INFINITY;
    let mut any = false;
    for c in 0..32 {
        for r in 0..R {
            let i = c * R + r;
            if i < n && consumed[0] != i && consumed[1] != i {
                let s = ref_score(rows, &lin, i);
                if s >= t {
                    if !any || s > top {
                        top = s;
                    }
                    any = true;
                }
            }
        }
    }
    match best {
        None => assert!(!any, "max() returned None although a position meets the threshold"),
        Some(hit) => {
            assert!(any, "max() returned a hit although no position meets the threshold");
            let p = hit.position();
            assert!(p < n && consumed[0] != p && consumed[1] != p, "best hit outside the un-consumed positions");
            assert!(hit.score() == ref_score(rows, &lin, p), "best hit carries a wrong score");
            assert!(hit.score() >= t, "best hit below the threshold");
            assert!(hit.score() == top, "best hit is not a maximum-scoring position");
            crate::witness!(p == n - 1, "opt: best hit at the last position");
        }
    }
    crate::witness!(!any, "opt: no position meets the threshold");
}

/// C02 on blocks of several rows at an affordable size: the sequence is a concrete
/// background symbol except at the given positions (symbolic), and the threshold is
/// concrete, so that only the windows touching a symbolic symbol are symbolic
/// candidates. Everything else (oracle, exhaustion) is as in `collect_body`.
fn collect_sparse_body<const MX: usize, const R: usize, const L: usize, const BLOCK: usize, const K: usize>(
    arm: Dispatch,
    t: f32,
    background: u8,
    spots: &[usize],
) {
    set_verif_override(Some(arm));
    let (pssm, rows) = matrix(MX);
    let m = rows.len();
    let (mut st, lin) = striped_sparse::<R, L>(background, spots);
    st.configure(&pssm);
    let n = if L >= m { L + 1 - m } else { 0 };
    let mut count = 0usize;
    for c in 0..32 {
        for r in 0..R {
            let i = c * R + r;
            if i < n && ref_score(rows, &lin, i) >= t {
                count += 1;
            }
        }
    }
    nd::assume(count <= K);
    assume_few_candidates::<R>(&pssm, &lin, t);
    let mut scanner = Scanner::new(&pssm, &st);
    scanner.threshold(t);
    scanner.block_size(BLOCK);
    let mut got = [usize::MAX; 4];
    let mut returned = 0usize;
    let mut exhausted = false;
    for k in 0..K + 1 {
        match scanner.next() {
            None => {
                exhausted = true;
                break;
            }
            Some(hit) => {
                let p = hit.position();
                assert!(p < n, "hit outside [0, L-M]");
                let want = ref_score(rows, &lin, p);
                assert!(hit.score() == want, "hit carries a wrong score");
                assert!(want >= t, "hit below the threshold");
                for q in 0..k {
                    assert!(got[q] != p, "position yielded twice");
                }
                got[k] = p;
                returned += 1;
            }
        }
    }
    assert!(exhausted, "scanner yields more hits than qualifying positions");
    assert!(returned == count, "a qualifying position was not yielded");
    crate::witness!(count == K && (got[0] % R == R - 1 || got[1] % R == R - 1), "opt: K hits, one in the last row of a block");
    crate::witness!(count == 0 && exhausted, "opt: no qualifying position, scanner exhausted");
    core::mem::forget(scanner);
}

/// C03: `PRE` calls of next(), then max().
fn max_body<const MX: usize, const R: usize, const L: usize, const BLOCK: usize, const PRE: usize>(arm: Dispatch) {
    set_verif_override(Some(arm));
    let (pssm, rows) = matrix(MX);
    let m = rows.len();
    let (mut st, lin) = striped_fixed::<R, L>();
    let l = L;
    st.configure(&pssm);
    let t = any_threshold();
    let n = if l >= m { l + 1 - m } else { 0 };
    assume_few_candidates::<R>(&pssm, &lin, t);
    let mut scanner = Scanner::new(&pssm, &st);
    scanner.threshold(t);
    scanner.block_size(BLOCK);
    let mut consumed = [usize::MAX; 2];
    for k in 0..PRE {
        if let Some(hit) = scanner.next() {
            assert!(hit.position() < n);
            consumed[k] = hit.position();
        }
    }
    let best: Option<Hit> = Iterator::max(scanner);
    // oracle over un-consumed positions
    let mut top = f32::NEG_INFINITY;
    let mut any = false;
    for c in 0..32 {
        for r in 0..R {
            let i = c * R + r;
            if i < n && consumed[0] != i && consumed[1] != i {
                let s = ref_score(rows, &lin, i);
                if s >= t {
                    if !any || s > top {
                        top = s;
                    }
                    any = true;
                }
            }
        }
    }
    match best {
        None => assert!(!any, "max() returned None although a position meets the threshold"),
        Some(hit) => {
            assert!(any, "max() returned a hit although no position meets the threshold");
            let p = hit.position();
            assert!(p < n && consumed[0] != p && consumed[1] != p, "best hit outside the un-consumed positions");
            assert!(hit.score() == ref_score(rows, &lin, p), "best hit carries a wrong score");
            assert!(hit.score() >= t, "best hit below the threshold");
            assert!(hit.score() == top, "best hit is not a maximum-scoring position");
            crate::witness!(p == n - 1 && p > 0, "opt: best hit at the last position");
        }
    }
    crate::witness!(!any, "opt: no position meets the threshold");
}

// --- C02 -------------------------------------------------------------------------------
// name: matrix, rows, length, block size, dispatcher arm
//@ C02 thorough 3109 scanner to exhaustion: matrix 0 (M=2), R=1, L=32 (full row), default block, AVX2 arm, <=2 hits | kani=--no-assertion-reach-checks | mem=16 | unwindset=scan::Scanner<.*Iterator>::next#0:6
harness!(avx2vec, 34, c02_m0_r1_l32_b256_avx2, collect_body::<0, 1, 32, 256, 2>(Dispatch::Avx2));
//@ C02 quick 800 scanner to exhaustion: matrix 0 (M=2), R=1, L=1 (shorter than the motif), AVX2 arm | kani=--no-assertion-reach-checks | mem=8 | unwindset=scan::Scanner<.*Iterator>::next#0:6
harness!(avx2vec, 34, c02_m0_r1_l1_b256_avx2, collect_body::<0, 1, 1, 256, 2>(Dispatch::Avx2));
//@ C02 quick 800 scanner to exhaustion: matrix 0 (M=2), empty sequence (L=0, no rows), generic arm | kani=--no-assertion-reach-checks | mem=8 | unwindset=scan::Scanner<.*Iterator>::next#0:6
harness!(avx2vec, 34, c02_m0_r0_l0_b256_generic, collect_body::<0, 0, 0, 256, 2>(Dispatch::Generic));
//@ C02 thorough 2394 scanner to exhaustion: matrix 0 (M=2), R=1, L=20, default block, generic arm (u8 kernel of the dispatcher fall-back) | kani=--no-assertion-reach-checks | mem=16 | unwindset=scan::Scanner<.*Iterator>::next#0:6
harness!(avx2vec, 34, c02_m0_r1_l20_b256_generic, collect_body::<0, 1, 20, 256, 2>(Dispatch::Generic));
//@ C02 extended 10800 scanner to exhaustion: matrix 1 (M=1), R=2, L=40, block 1, AVX2 arm | kani=--no-assertion-reach-checks | mem=16 | unwindset=scan::Scanner<.*Iterator>::next#0:6
harness!(avx2vec, 34, c02_m1_r2_l40_b1_avx2, collect_body::<1, 2, 40, 1, 2>(Dispatch::Avx2));
//@ C02 extended 14400 scanner to exhaustion: matrix 0 (M=2), R=2, L=63, block 2 (= R: the next block would start on the look-ahead row; the cell past the last position sits in row 0), AVX2 arm | kani=--no-assertion-reach-checks | mem=16 | unwindset=scan::Scanner<.*Iterator>::next#0:6
harness!(avx2vec, 66, c02_m0_r2_l63_b2_avx2, collect_body::<0, 2, 63, 2, 2>(Dispatch::Avx2));
//@ C02 extended 10800 scanner to exhaustion: matrix 0 (M=2), R=2, L=64, block 2, AVX2 arm | kani=--no-assertion-reach-checks | mem=16 | unwindset=scan::Scanner<.*Iterator>::next#0:6
harness!(avx2vec, 66, c02_m0_r2_l64_b2_avx2, collect_body::<0, 2, 64, 2, 2>(Dispatch::Avx2));
//@ C02 extended 10800 scanner to exhaustion: matrix 3 (finite wildcard column), R=1, L=20, AVX2 arm | kani=--no-assertion-reach-checks | mem=16 | unwindset=scan::Scanner<.*Iterator>::next#0:6
harness!(avx2vec, 34, c02_m3_r1_l20_b256_avx2, collect_body::<3, 1, 20, 256, 2>(Dispatch::Avx2));
//@ C02 extended 10800 scanner to exhaustion: matrix 2 (M=3, near-ties), R=1, L=12, SSE2 arm (generic u8 kernel) | kani=--no-assertion-reach-checks | mem=16 | unwindset=scan::Scanner<.*Iterator>::next#0:6
harness!(avx2vec, 34, c02_m2_r1_l12_b256_sse2, collect_body::<2, 1, 12, 256, 2>(Dispatch::Sse2));
//@ C02 extended 10800 scanner to exhaustion: matrix 2 (M=3), R=2, L=50, block 1, AVX2 arm, <=3 hits | kani=--no-assertion-reach-checks | mem=16 | unwindset=scan::Scanner<.*Iterator>::next#0:6
harness!(avx2vec, 34, c02_m2_r2_l50_b1_avx2, collect_body::<2, 2, 50, 1, 3>(Dispatch::Avx2));
//@ C02 extended 10800 scanner to exhaustion: matrix 5 (M=3, sum of bytes > 255), R=3, L=70, block 2, AVX2 arm | kani=--no-assertion-reach-checks | mem=16 | unwindset=scan::Scanner<.*Iterator>::next#0:6
harness!(avx2vec, 66, c02_m5_r3_l70_b2_avx2, collect_body::<5, 3, 70, 2, 2>(Dispatch::Avx2));
//@ C02 extended 10800 scanner to exhaustion: matrix 4 (constant rows, scale factor 0), R=1, L=16, AVX2 arm | kani=--no-assertion-reach-checks | mem=16 | unwindset=scan::Scanner<.*Iterator>::next#0:6
harness!(avx2vec, 34, c02_m4_r1_l16_b256_avx2, collect_body::<4, 1, 16, 256, 2>(Dispatch::Avx2));
//@ C02 extended 10800 scanner to exhaustion: matrix 5, R=2, L=33, block 3 (R+1), generic arm | kani=--no-assertion-reach-checks | mem=16 | unwindset=scan::Scanner<.*Iterator>::next#0:6
harness!(avx2vec, 66, c02_m5_r2_l33_b3_generic, collect_body::<5, 2, 33, 3, 2>(Dispatch::Generic));
//@ C02 thorough 1800 scanner to exhaustion: matrix 0 (M=2), R=1, L=2 (= M), AVX2 arm | kani=--no-assertion-reach-checks | mem=8 | unwindset=scan::Scanner<.*Iterator>::next#0:6
harness!(avx2vec, 34, c02_m0_r1_l2_b256_avx2, collect_body::<0, 1, 2, 256, 1>(Dispatch::Avx2));

//@ C02 thorough 2138 scanner to exhaustion, blocks of 2 rows: matrix 0 (M=2), R=2, L=63, block 2, AVX2 arm, threshold -1, background T, symbolic symbols at 1, 3, 61, 62 (the cell past the last position sits in row 0, hits in row 1) | kani=--no-assertion-reach-checks | mem=12 | unwindset=scan::Scanner<.*Iterator>::next#0:6
harness!(avx2vec, 66, c02_sparse_m0_r2_l63_b2_avx2, collect_sparse_body::<0, 2, 63, 2, 2>(Dispatch::Avx2, -1.0, 2, &[1, 3, 61, 62]));
//@ C02 extended 10800 scanner to exhaustion, blocks of 3 rows: matrix 2 (M=3), R=3, L=94, block 3, generic arm, threshold 1.5, background A, symbolic symbols at 4, 5, 91, 92, 93 | kani=--no-assertion-reach-checks | mem=12 | unwindset=scan::Scanner<.*Iterator>::next#0:6
harness!(avx2vec, 98, c02_sparse_m2_r3_l94_b3_generic, collect_sparse_body::<2, 3, 94, 3, 2>(Dispatch::Generic, 1.5, 0, &[4, 5, 91, 92, 93]));

//@ C02 quick 800 scanner to exhaustion: matrix 0 (M=2), R=1, L=4 all symbolic, threshold 1.0, AVX2 arm | kani=--no-assertion-reach-checks | mem=10 | unwindset=scan::Scanner<.*Iterator>::next#0:6
harness!(avx2vec, 34, c02_tiny_m0_r1_l4_avx2, collect_sparse_body::<0, 1, 4, 256, 2>(Dispatch::Avx2, 1.0, 0, &[0, 1, 2, 3]));
//@ C02 quick 800 scanner to exhaustion: matrix 3 (finite wildcard column, M=2), R=1, L=5 all symbolic, threshold 6.0, generic arm | kani=--no-assertion-reach-checks | mem=10 | unwindset=scan::Scanner<.*Iterator>::next#0:6
harness!(avx2vec, 34, c02_tiny_m3_r1_l5_generic, collect_sparse_body::<3, 1, 5, 256, 2>(Dispatch::Generic, 6.0, 0, &[0, 1, 2, 3, 4]));
//@ C02 quick 800 scanner to exhaustion: matrix 0 (M=2), R=1, L=32 (full last column), symbolic symbols at 0, 1, 30, 31 on a background of T, threshold 2.0, AVX2 arm | kani=--no-assertion-reach-checks | mem=10 | unwindset=scan::Scanner<.*Iterator>::next#0:6
harness!(avx2vec, 34, c02_tiny_m0_r1_l32_avx2, collect_sparse_body::<0, 1, 32, 256, 2>(Dispatch::Avx2, 2.0, 2, &[0, 1, 30, 31]));

// Control-only instances: concrete sequence content and a threshold above every score, so that
// no candidate exists; what is exercised is the block loop (row / end arithmetic against sequence
// rows and look-ahead rows), termination and the absence of panics at block boundaries. They were
// meant for the quick tier, but the content of a heap matrix read back by the kernels does not
// constant-fold in CBMC: even these take > 800 s (11 M SAT variables), so they are thorough-tier
// too. The quick tier of C02 / C03 is therefore limited to the instances where scoring returns
// early (L < M, empty sequence), which is where the panics of the unrepaired scanner were.
//@ C02 thorough 1822 scanner control (concrete content TTT...): matrix 0 (M=2), R=2, L=64, block 2 (next block would start on the look-ahead row), threshold above every score, AVX2 arm | kani=--no-assertion-reach-checks | mem=16 | unwindset=scan::Scanner<.*Iterator>::next#0:6
harness!(avx2vec, 66, c02_ctl_m0_r2_l64_b2_avx2, collect_sparse_body::<0, 2, 64, 2, 2>(Dispatch::Avx2, 30.0, 2, &[]));
//@ C02 extended 7200 scanner control (concrete content): matrix 2 (M=3), R=3, L=90, block 2 (last block = one row + look-ahead rows), threshold above every score, generic arm | kani=--no-assertion-reach-checks | mem=16 | unwindset=scan::Scanner<.*Iterator>::next#0:6
harness!(avx2vec, 66, c02_ctl_m2_r3_l90_b2_generic, collect_sparse_body::<2, 3, 90, 2, 2>(Dispatch::Generic, 30.0, 0, &[]));
//@ C02 extended 7200 scanner control (concrete content): matrix 0 (M=2), R=2, L=33, block 1, one symbolic symbol at the end, threshold above every score, AVX2 arm | kani=--no-assertion-reach-checks | mem=16 | unwindset=scan::Scanner<.*Iterator>::next#0:6
harness!(avx2vec, 34, c02_ctl_m0_r2_l33_b1_avx2, collect_sparse_body::<0, 2, 33, 1, 2>(Dispatch::Avx2, 30.0, 1, &[32]));

// --- C03 -------------------------------------------------------------------------------
//@ C03 thorough 5400 scanner max(): matrix 0 (M=2), R=1, L=32, default block, AVX2 arm, no prior next() | kani=--no-assertion-reach-checks | mem=16 | unwindset=scan::Scanner<.*Iterator>::next#0:6;scan::Scanner<.*Iterator>::max#0:6
harness!(avx2vec, 34, c03_m0_r1_l32_b256_avx2_pre0, max_body::<0, 1, 32, 256, 0>(Dispatch::Avx2));
//@ C03 extended 10800 scanner max(): matrix 2 (M=3, near-ties under byte rounding), R=1, L=16, AVX2 arm, no prior next() | kani=--no-assertion-reach-checks | mem=16 | unwindset=scan::Scanner<.*Iterator>::next#0:6;scan::Scanner<.*Iterator>::max#0:6
harness!(avx2vec, 34, c03_m2_r1_l16_b256_avx2_pre0, max_body::<2, 1, 16, 256, 0>(Dispatch::Avx2));
//@ C03 extended 10800 scanner max(): matrix 2 (M=3), R=2, L=40, block 1, AVX2 arm, no prior next() | kani=--no-assertion-reach-checks | mem=16 | unwindset=scan::Scanner<.*Iterator>::next#0:6;scan::Scanner<.*Iterator>::max#0:6
harness!(avx2vec, 34, c03_m2_r2_l40_b1_avx2_pre0, max_body::<2, 2, 40, 1, 0>(Dispatch::Avx2));
//@ C03 extended 10800 scanner max(): matrix 0 (M=2), R=2, L=64, block 1, AVX2 arm, one prior next() | kani=--no-assertion-reach-checks | mem=16 | unwindset=scan::Scanner<.*Iterator>::next#0:6;scan::Scanner<.*Iterator>::max#0:6
harness!(avx2vec, 34, c03_m0_r2_l64_b1_avx2_pre1, max_body::<0, 2, 64, 1, 1>(Dispatch::Avx2));
//@ C03 quick 800 scanner max(): matrix 0 (M=2), R=1, L=1 (shorter than the motif), generic arm | kani=--no-assertion-reach-checks | mem=8 | unwindset=scan::Scanner<.*Iterator>::next#0:6;scan::Scanner<.*Iterator>::max#0:6
harness!(avx2vec, 34, c03_m0_r1_l1_b256_generic_pre0, max_body::<0, 1, 1, 256, 0>(Dispatch::Generic));
//@ C03 extended 10800 scanner max(): matrix 0 (M=2), R=1, L=20, generic arm, one prior next() | kani=--no-assertion-reach-checks | mem=16 | unwindset=scan::Scanner<.*Iterator>::next#0:6;scan::Scanner<.*Iterator>::max#0:6
harness!(avx2vec, 34, c03_m0_r1_l20_b256_generic_pre1, max_body::<0, 1, 20, 256, 1>(Dispatch::Generic));
//@ C03 extended 10800 scanner max(): matrix 5 (M=3), R=2, L=64, block 2, AVX2 arm, two prior next() | kani=--no-assertion-reach-checks | mem=16 | unwindset=scan::Scanner<.*Iterator>::next#0:6;scan::Scanner<.*Iterator>::max#0:6
harness!(avx2vec, 66, c03_m5_r2_l64_b2_avx2_pre2, max_body::<5, 2, 64, 2, 2>(Dispatch::Avx2));
//@ C03 extended 10800 scanner max(): matrix 3 (finite wildcard), R=1, L=20, AVX2 arm | kani=--no-assertion-reach-checks | mem=16 | unwindset=scan::Scanner<.*Iterator>::next#0:6;scan::Scanner<.*Iterator>::max#0:6
harness!(avx2vec, 34, c03_m3_r1_l20_b256_avx2_pre0, max_body::<3, 1, 20, 256, 0>(Dispatch::Avx2));
//@ C03 extended 10800 scanner max(): matrix 2 (M=3), R=3, L=80, block 2, AVX2 arm | kani=--no-assertion-reach-checks | mem=16 | unwindset=scan::Scanner<.*Iterator>::next#0:6;scan::Scanner<.*Iterator>::max#0:6
harness!(avx2vec, 66, c03_m2_r3_l80_b2_avx2_pre0, max_body::<2, 3, 80, 2, 0>(Dispatch::Avx2));
//@ C03 extended 10800 scanner max(): matrix 1 (M=1), R=2, L=33, block 3, SSE2 arm, one prior next() | kani=--no-assertion-reach-checks | mem=16 | unwindset=scan::Scanner<.*Iterator>::next#0:6;scan::Scanner<.*Iterator>::max#0:6
harness!(avx2vec, 66, c03_m1_r2_l33_b3_sse2_pre1, max_body::<1, 2, 33, 3, 1>(Dispatch::Sse2));
//@ C03 extended 10800 scanner max(): matrix 4 (constant rows), R=1, L=10, AVX2 arm | kani=--no-assertion-reach-checks | mem=16 | unwindset=scan::Scanner<.*Iterator>::next#0:6;scan::Scanner<.*Iterator>::max#0:6
harness!(avx2vec, 34, c03_m4_r1_l10_b256_avx2_pre0, max_body::<4, 1, 10, 256, 0>(Dispatch::Avx2));
//@ C03 quick 800 scanner max(): matrix 0 (M=2), R=1, L=4 all symbolic, threshold 1.0, AVX2 arm, no prior next() | kani=--no-assertion-reach-checks | mem=10 | unwindset=scan::Scanner<.*Iterator>::next#0:6;scan::Scanner<.*Iterator>::max#0:6
harness!(avx2vec, 34, c03_tiny_m0_r1_l4_avx2_pre0, max_sparse_body::<0, 1, 4, 256, 0>(Dispatch::Avx2, 1.0, 0, &[0, 1, 2, 3]));
//@ C03 thorough 3600 scanner max(): matrix 2 (M=3, near-ties under byte rounding), R=1, L=6 all symbolic, threshold 1.25, AVX2 arm, no prior next() | kani=--no-assertion-reach-checks | mem=10 | unwindset=scan::Scanner<.*Iterator>::next#0:6;scan::Scanner<.*Iterator>::max#0:6
harness!(avx2vec, 34, c03_tiny_m2_r1_l6_avx2_pre0, max_sparse_body::<2, 1, 6, 256, 0>(Dispatch::Avx2, 1.25, 0, &[0, 1, 2, 3, 4, 5]));
//@ C03 thorough 2598 scanner max(): matrix 0 (M=2), R=1, L=5 all symbolic, threshold 2.0 (a score value: equality matters), generic arm, one prior next() | kani=--no-assertion-reach-checks | mem=10 | unwindset=scan::Scanner<.*Iterator>::next#0:6;scan::Scanner<.*Iterator>::max#0:6
harness!(avx2vec, 34, c03_tiny_m0_r1_l5_generic_pre1, max_sparse_body::<0, 1, 5, 256, 1>(Dispatch::Generic, 2.0, 0, &[0, 1, 2, 3, 4]));
//@ C03 extended 7200 scanner max() control (concrete content): matrix 0 (M=2), R=2, L=64, block 2, threshold above every score, AVX2 arm, one prior next() | kani=--no-assertion-reach-checks | mem=16 | unwindset=scan::Scanner<.*Iterator>::next#0:6;scan::Scanner<.*Iterator>::max#0:6
harness!(avx2vec, 66, c03_ctl_m0_r2_l64_b2_avx2_pre1, max_sparse_body::<0, 2, 64, 2, 1>(Dispatch::Avx2, 30.0, 2, &[]));
//@ C03 extended 7200 scanner max() control (concrete content): matrix 2 (M=3), R=3, L=90, block 2, threshold above every score, generic arm | kani=--no-assertion-reach-checks | mem=16 | unwindset=scan::Scanner<.*Iterator>::next#0:6;scan::Scanner<.*Iterator>::max#0:6
harness!(avx2vec, 66, c03_ctl_m2_r3_l90_b2_generic_pre0, max_sparse_body::<2, 3, 90, 2, 0>(Dispatch::Generic, 30.0, 0, &[]));
