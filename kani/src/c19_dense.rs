//! C19 — dense matrix storage keeps rows aligned and contents intact.
//!
//! @functions C19: dense.rs DenseMatrix::{new,with_capacity,uninitialized,from_rows,resize,reserve,rows,columns,stride,fill,ravel_mut,iter,iter_mut,clone,eq}; dense.rs Index/IndexMut<usize>, Index/IndexMut<MatrixCoordinates>; dense.rs Iter/IterMut (next, next_back, len); dense.rs Row (repr(align(32)))
//!
//! One step per operation from an arbitrary state: a matrix with a concrete number
//! of rows and symbolic cells, shadowed by a plain `[[T; 43]; R]` table.

use generic_array::ArrayLength;
use lightmotif::dense::{DenseMatrix, MatrixCoordinates, MatrixElement};
use lightmotif::num::{Unsigned, U1, U16, U21, U32, U43, U5, U7};

use crate::nd;

pub trait Cell: MatrixElement + PartialEq + core::fmt::Debug {
    fn any() -> Self;
}
impl Cell for u8 {
    fn any() -> u8 {
        nd::u8_()
    }
}
impl Cell for u32 {
    fn any() -> u32 {
        nd::u32_()
    }
}
impl Cell for i64 {
    fn any() -> i64 {
        nd::i64_()
    }
}
impl Cell for f32 {
    fn any() -> f32 {
        let x = nd::f32_();
        nd::assume(!x.is_nan());
        x
    }
}

const W: usize = 43;

fn make<T: Cell, C: ArrayLength, const R: usize>() -> (DenseMatrix<T, C>, [[T; W]; R]) {
    let mut m = DenseMatrix::<T, C>::new(R);
    assert!(m.rows() == R);
    assert!(m.columns() == C::USIZE);
    let mut sh = [[T::default(); W]; R];
    for i in 0..R {
        assert!(m[i].len() == C::USIZE);
        for j in 0..C::USIZE {
            assert!(m[i][j] == T::default(), "new rows must hold the default value");
            let x = T::any();
            if j % 2 == 0 {
                m[i][j] = x;
            } else {
                m[MatrixCoordinates::new(i, j)] = x;
            }
            sh[i][j] = x;
        }
    }
    (m, sh)
}

fn same<T: Cell, C: ArrayLength, const R: usize>(m: &DenseMatrix<T, C>, sh: &[[T; W]; R], rows: usize) {
    for i in 0..rows {
        for j in 0..C::USIZE {
            assert!(m[i][j] == sh[i][j], "cell differs from the model table");
            assert!(m[MatrixCoordinates::new(i, j)] == sh[i][j]);
        }
    }
}

fn layout<T: Cell, C: ArrayLength>(m: &DenseMatrix<T, C>) {
    let sz = core::mem::size_of::<T>();
    assert!(m.stride() >= C::USIZE, "stride below the column count");
    assert!((m.stride() * sz) % 32 == 0, "stride is not a whole number of 32-byte units");
    for i in 0..m.rows() {
        assert!((m[i].as_ptr() as usize) % 32 == 0, "row does not start on a 32-byte boundary");
    }
    if m.rows() > 1 {
        let d = (m[1].as_ptr() as usize) - (m[0].as_ptr() as usize);
        assert!(d == m.stride() * sz, "distance between rows differs from the stride");
    }
}

/// new -> write -> resize(R1) -> clone / eq -> iterate -> fill
fn ops_body<T: Cell, C: ArrayLength + PartialEq, const R0: usize, const R1: usize>() {
    shape_body::<T, C, R0>();
    resize_body::<T, C, R0, R1>();
}

/// new -> write -> layout -> clone / eq / from_rows -> forward and reverse iteration
fn shape_body<T: Cell, C: ArrayLength + PartialEq, const R0: usize>() {
    let (m, sh) = make::<T, C, R0>();
    layout(&m);
    same(&m, &sh, R0);
    // clone and equality depend on the logical cells only
    let c = m.clone();
    assert!(c == m, "clone differs from the original");
    assert!(c.rows() == R0);
    same(&c, &sh, R0);
    if R0 > 0 {
        // a matrix built through the uninitialised constructor (padding unspecified)
        let mut rows: [[T; W]; R0] = sh;
        let f = DenseMatrix::<T, C>::from_rows(rows.iter().map(|r| &r[..C::USIZE]));
        assert!(f.rows() == R0);
        assert!(f == m, "equality must ignore padding");
        layout(&f);
        // one differing logical cell makes them unequal
        let (i, j) = (R0 - 1, C::USIZE - 1);
        let x = T::any();
        nd::assume(x != sh[i][j]);
        rows[i][j] = x;
        let g = DenseMatrix::<T, C>::from_rows(rows.iter().map(|r| &r[..C::USIZE]));
        assert!(g != m, "matrices differing in a logical cell compare equal");
        core::mem::forget(f);
        core::mem::forget(g);
    }
    // forward / reverse iteration visit exactly the rows in order
    {
        let mut it = m.iter();
        assert!(it.len() == R0);
        for i in 0..R0 {
            let row = it.next().expect("row");
            assert!(row.len() == C::USIZE);
            for j in 0..C::USIZE {
                assert!(row[j] == sh[i][j]);
            }
        }
        assert!(it.next().is_none());
        let mut it = m.iter().rev();
        for i in 0..R0 {
            let row = it.next().expect("row");
            for j in 0..C::USIZE {
                assert!(row[j] == sh[R0 - 1 - i][j]);
            }
        }
        assert!(it.next().is_none());
    }
    crate::witness!(R0 == 0 || sh[R0 - 1][C::USIZE - 1] != T::default(), "non-default last cell");
    core::mem::forget(m);
    core::mem::forget(c);
}

/// new -> write -> clone -> resize(R1) -> iter_mut -> fill
fn resize_body<T: Cell, C: ArrayLength + PartialEq, const R0: usize, const R1: usize>() {
    let (mut m, sh) = make::<T, C, R0>();
    let c = m.clone();
    // resize keeps old rows, new rows hold the default value
    m.resize(R1);
    assert!(m.rows() == R1, "rows() must report the row count last requested");
    layout(&m);
    let keep = if R0 < R1 { R0 } else { R1 };
    same(&m, &sh, keep);
    for i in keep..R1 {
        for j in 0..C::USIZE {
            assert!(m[i][j] == T::default(), "row added by resize does not hold the default value");
        }
    }
    assert!(c.rows() == R0, "resizing the original changed its clone");
    same(&c, &sh, R0);
    // mutable iteration reaches every row once, in order
    let marks: [T; 4] = [T::any(), T::any(), T::any(), T::any()];
    for (i, row) in m.iter_mut().enumerate() {
        assert!(i < R1);
        row[0] = marks[i % 4];
    }
    for i in 0..R1 {
        assert!(m[i][0] == marks[i % 4]);
        for j in 1..C::USIZE {
            let want = if i < keep { sh[i][j] } else { T::default() };
            assert!(m[i][j] == want, "iter_mut write disturbed another cell");
        }
    }
    // fill
    let v = T::any();
    m.fill(v);
    assert!(m.rows() == R1);
    for i in 0..R1 {
        for j in 0..C::USIZE {
            assert!(m[i][j] == v, "fill left a cell untouched");
        }
    }
    crate::witness!(R1 == 0 || m[R1 - 1][C::USIZE - 1] != T::default(), "non-default fill value");
    core::mem::forget(m);
    core::mem::forget(c);
}

/// two resizes in a row: shrink (or grow) to R1, then to R2; rows that survive both
/// keep their contents, every other row of the final matrix holds the default value
fn resize2_body<T: Cell, C: ArrayLength + PartialEq, const R0: usize, const R1: usize, const R2: usize>() {
    let (mut m, sh) = make::<T, C, R0>();
    m.resize(R1);
    assert!(m.rows() == R1);
    m.resize(R2);
    assert!(m.rows() == R2, "rows() must report the row count last requested");
    layout(&m);
    let keep = core::cmp::min(R0, core::cmp::min(R1, R2));
    same(&m, &sh, keep);
    for i in keep..R2 {
        for j in 0..C::USIZE {
            assert!(m[i][j] == T::default(), "row re-created by resize does not hold the default value");
        }
    }
    // fill after the resizes reaches exactly the logical rows
    let v = T::any();
    m.fill(v);
    let mut n = 0usize;
    for row in m.iter() {
        for j in 0..C::USIZE {
            assert!(row[j] == v);
        }
        n += 1;
    }
    assert!(n == R2);
    crate::witness!(R0 == 0 || sh[R0 - 1][0] != T::default(), "non-default content before the resizes");
    core::mem::forget(m);
}

/// with_capacity + reserve do not change the logical content
fn capacity_body<T: Cell, C: ArrayLength, const R0: usize, const CAP: usize>() {
    let mut m = DenseMatrix::<T, C>::with_capacity(R0, CAP);
    assert!(m.rows() == R0);
    let x = T::any();
    for i in 0..R0 {
        for j in 0..C::USIZE {
            assert!(m[i][j] == T::default());
        }
        m[i][C::USIZE - 1] = x;
    }
    m.reserve(CAP + 3);
    assert!(m.rows() == R0);
    for i in 0..R0 {
        assert!(m[i][C::USIZE - 1] == x);
    }
    layout(&m);
    crate::witness!(x != T::default(), "non-default value");
    core::mem::forget(m);
}

//@ C19 quick 800 DenseMatrix<u8, 32>: new(2), writes, layout, clone/eq/from_rows, iter, rev | mem=12
harness!(none, 180, c19_u8_c32_r2_shape, shape_body::<u8, U32, 2>());
//@ C19 quick 800 DenseMatrix<u8, 32>: new(2), writes, clone, resize(3), iter_mut, fill | mem=12
harness!(none, 180, c19_u8_c32_r2_r3_resize, resize_body::<u8, U32, 2, 3>());
//@ C19 quick 800 DenseMatrix<u8, 43> (stride 64): new(2), writes, layout, clone/eq/from_rows, iter, rev | mem=12
harness!(none, 180, c19_u8_c43_r2_shape, shape_body::<u8, U43, 2>());
//@ C19 quick 800 DenseMatrix<u8, 43> (stride 64): new(2), writes, clone, resize(1), iter_mut, fill | mem=12
harness!(none, 180, c19_u8_c43_r2_r1_resize, resize_body::<u8, U43, 2, 1>());
//@ C19 quick 800 DenseMatrix<u32, 5> (stride 8): new(3) ... resize(4)
harness!(none, 180, c19_u32_c5_r3_r4, ops_body::<u32, U5, 3, 4>());
//@ C19 quick 800 DenseMatrix<f32, 21> (stride 24): new(2) ... resize(0) | mem=12
harness!(none, 180, c19_f32_c21_r2_r0, ops_body::<f32, U21, 2, 0>());
//@ C19 quick 800 DenseMatrix<i64, 7> (stride 8): new(1) ... resize(3)
harness!(none, 180, c19_i64_c7_r1_r3, ops_body::<i64, U7, 1, 3>());
//@ C19 quick 800 DenseMatrix<u8, 1> (stride 32): new(0) ... resize(2)
harness!(none, 180, c19_u8_c1_r0_r2, ops_body::<u8, U1, 0, 2>());
//@ C19 quick 800 DenseMatrix<f32, 16>: with_capacity(2, 5), reserve
harness!(none, 180, c19_f32_c16_cap, capacity_body::<f32, U16, 2, 5>());
//@ C19 quick 800 DenseMatrix<u32, 5>: new(3), writes, resize(1), resize(4) (shrink, then grow past the previous maximum), fill
harness!(none, 180, c19_u32_c5_r3_r1_r4, resize2_body::<u32, U5, 3, 1, 4>());
//@ C19 quick 800 DenseMatrix<u8, 16>: new(2), writes, resize(0), resize(3), fill
harness!(none, 180, c19_u8_c16_r2_r0_r3, resize2_body::<u8, U16, 2, 0, 3>());
//@ C19 quick 800 DenseMatrix<f32, 7>: new(2), writes, resize(3), resize(1), fill
harness!(none, 180, c19_f32_c7_r2_r3_r1, resize2_body::<f32, U7, 2, 3, 1>());
//@ C19 quick 800 DenseMatrix<u32, 43> (stride 48): new(2) ... resize(4) | mem=12
harness!(none, 200, c19_u32_c43_r2_r4, ops_body::<u32, U43, 2, 4>());
//@ C19 quick 800 DenseMatrix<i64, 21> (stride 24): new(3) ... resize(2) | mem=12
harness!(none, 180, c19_i64_c21_r3_r2, ops_body::<i64, U21, 3, 2>());
//@ C19 thorough 1800 DenseMatrix<f32, 32>: new(4) ... resize(4) | mem=12
harness!(none, 180, c19_f32_c32_r4_r4, ops_body::<f32, U32, 4, 4>());
//@ C19 quick 800 DenseMatrix<u8, 7> (stride 32): new(3) ... resize(1)
harness!(none, 180, c19_u8_c7_r3_r1, ops_body::<u8, U7, 3, 1>());
//@ C19 quick 800 DenseMatrix<u32, 16>: new(1) ... resize(2)
harness!(none, 180, c19_u32_c16_r1_r2, ops_body::<u32, U16, 1, 2>());
//@ C19 quick 800 DenseMatrix<i64, 1>: with_capacity(3, 3), reserve
harness!(none, 180, c19_i64_c1_cap, capacity_body::<i64, U1, 3, 3>());
