//! C08 — 8-bit discretised scores never under-estimate the real score.
//!
//! @functions C08: pwm ScoringMatrix::{to_discrete,max_score,score_position}; pwm DiscreteMatrix::{scale,unscale,score_position}; pli::Score<u8>::score_rows_into (default, generic / SSE2 / dispatcher fall-back); avx2::score_u8_avx2_shuffle / Avx2::score_u8_rows_into_shuffle; dispatch.rs Score<u8> arms
//!
//! Symbolic matrix: non-wildcard cells on the lattice k/16, |k| <= 1024 (log-odds
//! like magnitudes), wildcard column -inf or on the lattice; symbolic window
//! (wildcard included). The real float divisions / ceil / floor of `to_discrete`
//! and `scale` are bit-blasted. Oracle, for the window placed at position 0 (and,
//! on the 32-lane backends, also in the upper 128-bit lane):
//!   byte score >= dm.scale(real score), and real >= t  =>  byte score >= dm.scale(t).

use generic_array::ArrayLength;
use lightmotif::abc::{Background, Dna, Nucleotide, Symbol};
use lightmotif::dense::DenseMatrix;
use lightmotif::num::{StrictlyPositive, U32, U4, U5};
use lightmotif::pli::dispatch::{set_verif_override, Dispatch};
use lightmotif::pli::platform::{Avx2, Generic};
use lightmotif::pli::{Pipeline, Score};
use lightmotif::pwm::{DiscreteMatrix, ScoringMatrix};
use lightmotif::scores::StripedScores;
use lightmotif::seq::StripedSequence;

use crate::nd;
use crate::refs::nuc;

/// Cell lattice: k/4 for k in -8..=7 (16 values per cell). With the 11-bit
/// lattice of the design (k/16, |k| <= 1024) no instance with M >= 2 produced a
/// verdict in 40 minutes: the proof needs the solver to reason through the
/// bit-blasted f32 divisions of `to_discrete` and `scale` (DESIGN.md C08).
pub fn lattice() -> f32 {
    let k = nd::i8_();
    nd::assume(k >= -8 && k <= 7);
    (k as f32) / 4.0
}

/// Coarse lattice for the quick tier: {-1, -0.5, 0, 0.5} (4 values per cell).
pub fn lattice2() -> f32 {
    let k = nd::i8_();
    nd::assume(k >= -2 && k <= 1);
    (k as f32) / 2.0
}

/// Symbolic scoring matrix; `WILD`: 0 = wildcard column -inf, 1 = wildcard on the lattice.
pub fn any_matrix<const M: usize, const WILD: u8>() -> (ScoringMatrix<Dna>, [[f32; 5]; M]) {
    // WILD: 0 = wildcard -inf, 1 = wildcard on the lattice; +2 = coarse 4-value lattice
    let coarse = WILD >= 2;
    let mut d = DenseMatrix::<f32, U5>::new(M);
    let mut sh = [[0f32; 5]; M];
    for j in 0..M {
        for a in 0..5 {
            let x = if a == 4 && WILD % 2 == 0 {
                f32::NEG_INFINITY
            } else if coarse {
                lattice2()
            } else {
                lattice()
            };
            d[j][a] = x;
            sh[j][a] = x;
        }
    }
    (ScoringMatrix::new(Background::uniform(), d), sh)
}

/// One-row striped sequence holding `seq` at positions `at..at+LEN` (wildcards
/// elsewhere), with `wrap` look-ahead rows.
fn striped_with<C: StrictlyPositive + ArrayLength, const LEN: usize>(
    seq: &[Nucleotide; LEN],
    at: usize,
    total: usize,
    wrap: usize,
) -> StripedSequence<Dna, C> {
    let mut m = DenseMatrix::<Nucleotide, C>::new(1);
    for c in 0..C::USIZE {
        m[0][c] = if c >= at && c < at + LEN { seq[c - at] } else { Nucleotide::N };
    }
    let mut st = StripedSequence::<Dna, C>::new(m, total).unwrap();
    st.configure_wrap(wrap);
    st
}

fn check<const M: usize>(dm: &DiscreteMatrix<Dna>, cell: &[[f32; 5]; M], win: &[Nucleotide; M], byte: u8) {
    let mut real = 0.0f32;
    for j in 0..M {
        real += cell[j][win[j].as_index()];
    }
    assert!(byte >= dm.scale(real), "byte score is below the byte image of the real score");
    let t = lattice() * (M as f32);
    if real >= t {
        assert!(byte >= dm.scale(t), "a position meeting the threshold misses the byte threshold");
    }
}

fn any_window<const M: usize>() -> [Nucleotide; M] {
    let mut w = [Nucleotide::N; M];
    for j in 0..M {
        w[j] = nuc(nd::u8_in(0, 4));
    }
    w
}

/// `DiscreteMatrix::score_position` (scalar byte scoring) + scale
fn position_body<const M: usize, const WILD: u8>() {
    let (pssm, cell) = any_matrix::<M, WILD>();
    let dm = pssm.to_discrete();
    let win = any_window::<M>();
    let st = striped_with::<U4, M>(&win, 0, M, M - 1);
    let byte = dm.score_position(&st, 0);
    check::<M>(&dm, &cell, &win, byte);
    crate::witness!(byte > 200, "high byte score reached");
}

/// byte scoring by a pipeline with `C` lanes, window at column `AT`
fn pipeline_body<C, P, const M: usize, const WILD: u8, const AT: usize>(pli: &P)
where
    C: StrictlyPositive + ArrayLength,
    P: Score<u8, Dna, C>,
{
    let (pssm, cell) = any_matrix::<M, WILD>();
    let dm = pssm.to_discrete();
    let win = any_window::<M>();
    let st = striped_with::<C, M>(&win, AT, AT + M, M - 1);
    let mut scores = StripedScores::<u8, C>::empty();
    pli.score_into(&dm, &st, &mut scores);
    assert!(scores.matrix().rows() == 1);
    let byte = scores.matrix()[0][AT];
    check::<M>(&dm, &cell, &win, byte);
    crate::witness!(byte > 200, "high byte score reached");
}

fn dispatch_body<const M: usize, const WILD: u8, const AT: usize>(arm: Dispatch) {
    set_verif_override(Some(arm));
    let pli = Pipeline::<Dna, Dispatch>::dispatch();
    pipeline_body::<U32, _, M, WILD, AT>(&pli);
}

fn generic() -> Pipeline<Dna, Generic> {
    Pipeline::generic()
}
fn avx2() -> Pipeline<Dna, Avx2> {
    Pipeline::default()
}

//@ C08 thorough 2130 to_discrete + DiscreteMatrix::score_position + scale, M=2, wildcard column -inf
harness!(none, 8, c08_position_m2, position_body::<2, 0>());
//@ C08 quick 800 to_discrete + generic u8 scoring (C=4), M=2, wildcard on the lattice
harness!(none, 8, c08_generic_m2_wild, pipeline_body::<U4, _, 2, 1, 0>(&generic()));
//@ C08 thorough 2207 to_discrete + AVX2 u8 scoring, M=2, window in the upper 128-bit lane (column 17)
harness!(avx2, 34, c08_avx2_m2_at17, pipeline_body::<U32, _, 2, 0, 17>(&avx2()));
//@ C08 extended 7200 to_discrete + AVX2 u8 scoring, M=3, window at column 0
harness!(avx2, 34, c08_avx2_m3_at0, pipeline_body::<U32, _, 3, 0, 0>(&avx2()));
//@ C08 thorough 2374 to_discrete + dispatcher (SSE2 arm = generic u8 kernel), M=2, window at column 5
harness!(avx2, 34, c08_dispatch_sse2_m2, dispatch_body::<2, 0, 5>(Dispatch::Sse2));
//@ C08 quick 800 to_discrete + dispatcher (AVX2 arm), M=1
harness!(avx2, 34, c08_dispatch_avx2_m1, dispatch_body::<1, 0, 30>(Dispatch::Avx2));
//@ C08 extended 7200 to_discrete + generic u8 scoring (C=4), M=3
harness!(none, 8, c08_generic_m3, pipeline_body::<U4, _, 3, 0, 0>(&generic()));
//@ C08 extended 7200 to_discrete + generic u8 scoring (C=4), M=4
harness!(none, 8, c08_generic_m4, pipeline_body::<U4, _, 4, 0, 0>(&generic()));
//@ C08 extended 7200 to_discrete + AVX2 u8 scoring, M=4, wildcard on the lattice
harness!(avx2, 34, c08_avx2_m4_wild, pipeline_body::<U32, _, 4, 1, 9>(&avx2()));
//@ C08 extended 7200 to_discrete + DiscreteMatrix::score_position, M=4, wildcard on the lattice
harness!(none, 8, c08_position_m4_wild, position_body::<4, 1>());
//@ C08 extended 7200 to_discrete + dispatcher (generic arm), M=3
harness!(avx2, 34, c08_dispatch_generic_m3, dispatch_body::<3, 0, 12>(Dispatch::Generic));
// --- quick tier: M = 1 on the 16-value lattice, M = 2 on the coarse 4-value lattice ---------
//@ C08 quick 800 to_discrete + DiscreteMatrix::score_position + scale, M=1, wildcard on the lattice
harness!(none, 8, c08_position_m1_wild, position_body::<1, 1>());
//@ C08 quick 800 to_discrete + generic u8 scoring (C=4), M=1
harness!(none, 8, c08_generic_m1, pipeline_body::<U4, _, 1, 0, 0>(&generic()));
//@ C08 quick 800 to_discrete + DiscreteMatrix::score_position + scale, M=2, coarse lattice
harness!(none, 8, c08_position_m2_coarse, position_body::<2, 2>());
//@ C08 quick 800 to_discrete + generic u8 scoring (C=4), M=2, coarse lattice, wildcard on the lattice
harness!(none, 8, c08_generic_m2_coarse_wild, pipeline_body::<U4, _, 2, 3, 0>(&generic()));
//@ C08 quick 800 to_discrete + AVX2 u8 scoring, M=2, coarse lattice, window in the upper 128-bit lane
harness!(avx2, 34, c08_avx2_m2_coarse_at17, pipeline_body::<U32, _, 2, 2, 17>(&avx2()));
//@ C08 quick 800 to_discrete + dispatcher (SSE2 arm = generic u8 kernel), M=2, coarse lattice
harness!(avx2, 34, c08_dispatch_sse2_m2_coarse, dispatch_body::<2, 2, 5>(Dispatch::Sse2));
