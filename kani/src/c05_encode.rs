//! C05 — encoding accepts exactly the alphabet and is identical on every backend.
//!
//! Spec (written here, independent of the library): a byte is valid iff it is one
//! of the alphabet's upper-case letters; the encoded symbol's index is the
//! letter's position in the alphabet string; on failure the error carries the
//! first invalid byte. Every backend is compared with this spec, so agreement
//! between backends follows.

use lightmotif::abc::{Alphabet, Dna, Protein, Symbol};
use lightmotif::err::InvalidSymbol;
use lightmotif::pli::dispatch::{set_verif_override, Dispatch};
use lightmotif::pli::platform::{Avx2, Generic, Sse2};
use lightmotif::pli::{Encode, Pipeline};
use lightmotif::seq::EncodedSequence;

use crate::nd;
use crate::refs::{dna_index, protein_index};

trait Spec: Alphabet {
    fn spec(b: u8) -> Option<u8>;
}
impl Spec for Dna {
    fn spec(b: u8) -> Option<u8> {
        dna_index(b)
    }
}
impl Spec for Protein {
    fn spec(b: u8) -> Option<u8> {
        protein_index(b)
    }
}

fn first_bad<A: Spec, const L: usize>(src: &[u8; L]) -> Option<u8> {
    let mut bad = None;
    let mut i = L;
    while i > 0 {
        i -= 1;
        if A::spec(src[i]).is_none() {
            bad = Some(src[i]);
        }
    }
    bad
}

fn check_outcome<A: Spec, const L: usize>(
    src: &[u8; L],
    r: Result<(), InvalidSymbol>,
    dst: &[A::Symbol],
) {
    let bad = first_bad::<A, L>(src);
    match (r, bad) {
        (Ok(()), None) => {
            crate::witness!(true, "valid input reached");
            if L > 0 {
                let i = nd::usize_in(0, L - 1);
                assert!(dst[i].as_index() == A::spec(src[i]).unwrap() as usize);
                // what `Display for EncodedSequence` writes for symbol i
                assert!(dst[i].as_ascii() == src[i]);
                assert!(dst[i].as_char() == src[i] as char);
            }
        }
        (Err(InvalidSymbol(c)), Some(b)) => {
            crate::witness!(true, "invalid input reached");
            assert!(c == b as char, "error must report the first offending byte");
        }
        (Ok(()), Some(_)) => panic!("invalid input accepted"),
        (Err(_), None) => panic!("valid input rejected"),
    }
}

/// `encode_into` of a pipeline into a caller-provided buffer.
fn encode_into_body<A: Spec, P: Encode<A>, const L: usize>(pli: &P) {
    let src: [u8; L] = nd::bytes();
    let mut dst = [A::Symbol::default(); L];
    let r = pli.encode_into(&src[..], &mut dst[..]);
    check_outcome::<A, L>(&src, r, &dst[..]);
}

/// Empty input: must be accepted, nothing written.
fn encode_empty_body<A: Spec, P: Encode<A>>(pli: &P) {
    let src: [u8; 0] = [];
    let mut dst: [A::Symbol; 0] = [];
    let flag = nd::bool_();
    let r = pli.encode_into(&src[..], &mut dst[..]);
    crate::witness!(flag, "empty input reached");
    assert!(r.is_ok());
}

/// `EncodedSequence::encode` through the runtime dispatcher, arm forced by the hook
/// (also covers `encode_raw`'s uninitialised `Vec` and `encode`).
fn dispatch_body<A: Spec, const L: usize>(arm: Dispatch) {
    set_verif_override(Some(arm));
    let src: [u8; L] = nd::bytes();
    match EncodedSequence::<A>::encode(&src[..]) {
        Ok(seq) => {
            assert!(seq.len() == L);
            let data: &[A::Symbol] = seq.as_ref();
            check_outcome::<A, L>(&src, Ok(()), data);
        }
        Err(e) => check_outcome::<A, L>(&src, Err(e), &[]),
    }
}

fn generic<A: Alphabet>() -> Pipeline<A, Generic> {
    Pipeline::generic()
}
fn sse2<A: Alphabet>() -> Pipeline<A, Sse2> {
    Pipeline::default()
}
fn avx2<A: Alphabet>() -> Pipeline<A, Avx2> {
    Pipeline::default()
}

// --- generic -----------------------------------------------------------------
//@ C05 quick 800 generic encode_into, DNA, 0 bytes
harness!(none, 8, c05_generic_dna_l0, encode_empty_body::<Dna, _>(&generic()));
//@ C05 quick 800 generic encode_into, DNA, 4 symbolic bytes
harness!(none, 8, c05_generic_dna_l4, encode_into_body::<Dna, _, 4>(&generic()));
//@ C05 quick 800 generic encode_into, protein, 3 symbolic bytes
harness!(none, 24, c05_generic_protein_l3, encode_into_body::<Protein, _, 3>(&generic()));

// --- SSE2 (vector loop runs while i + 16 < L) -----------------------------------
//@ C05 quick 800 SSE2 encode_into, DNA, 16 symbolic bytes (no vector block, all tail)
harness!(sse2, 20, c05_sse2_dna_l16, encode_into_body::<Dna, _, 16>(&sse2()));
//@ C05 quick 800 SSE2 encode_into, DNA, 17 symbolic bytes (one block + 1 tail byte)
harness!(sse2, 20, c05_sse2_dna_l17, encode_into_body::<Dna, _, 17>(&sse2()));
//@ C05 quick 800 SSE2 encode_into, DNA, 34 symbolic bytes (two blocks + 2 tail bytes)
harness!(sse2, 37, c05_sse2_dna_l34, encode_into_body::<Dna, _, 34>(&sse2()));
//@ C05 quick 800 SSE2 encode_into, protein, 18 symbolic bytes
harness!(sse2, 24, c05_sse2_protein_l18, encode_into_body::<Protein, _, 18>(&sse2()));
//@ C05 quick 800 SSE2 encode_into, DNA, 1 symbolic byte
harness!(sse2, 20, c05_sse2_dna_l1, encode_into_body::<Dna, _, 1>(&sse2()));
//@ C05 quick 800 SSE2 encode_into, protein, 35 symbolic bytes
harness!(sse2, 38, c05_sse2_protein_l35, encode_into_body::<Protein, _, 35>(&sse2()));

// --- AVX2 (vector loop runs while i + 32 <= L) ----------------------------------
//@ C05 quick 800 AVX2 encode_into, DNA, 0 bytes
harness!(avx2, 8, c05_avx2_dna_l0, encode_empty_body::<Dna, _>(&avx2()));
//@ C05 quick 800 AVX2 encode_into, DNA, 31 symbolic bytes (all tail)
harness!(avx2, 34, c05_avx2_dna_l31, encode_into_body::<Dna, _, 31>(&avx2()));
//@ C05 quick 800 AVX2 encode_into, DNA, 32 symbolic bytes (one block, empty tail)
harness!(avx2, 35, c05_avx2_dna_l32, encode_into_body::<Dna, _, 32>(&avx2()));
//@ C05 quick 800 AVX2 encode_into, DNA, 33 symbolic bytes (one block + 1 tail byte)
harness!(avx2, 36, c05_avx2_dna_l33, encode_into_body::<Dna, _, 33>(&avx2()));
//@ C05 quick 800 AVX2 encode_into, protein, 33 symbolic bytes
harness!(avx2, 36, c05_avx2_protein_l33, encode_into_body::<Protein, _, 33>(&avx2()));
//@ C05 quick 800 AVX2 encode_into, DNA, 65 symbolic bytes (two blocks + 1 tail byte: error flag must accumulate across blocks)
harness!(avx2, 68, c05_avx2_dna_l65, encode_into_body::<Dna, _, 65>(&avx2()));
//@ C05 quick 800 AVX2 encode_into, protein, 64 symbolic bytes (two blocks)
harness!(avx2, 67, c05_avx2_protein_l64, encode_into_body::<Protein, _, 64>(&avx2()));

// --- dispatcher arms (hook H1) ------------------------------------------------------
//@ C05 quick 800 EncodedSequence::encode via dispatcher, AVX2 arm, DNA, 33 bytes
harness!(avx2, 36, c05_dispatch_avx2_dna_l33, dispatch_body::<Dna, 33>(Dispatch::Avx2));
//@ C05 quick 800 EncodedSequence::encode via dispatcher, SSE2 arm, DNA, 17 bytes
harness!(avx2, 20, c05_dispatch_sse2_dna_l17, dispatch_body::<Dna, 17>(Dispatch::Sse2));
//@ C05 quick 800 EncodedSequence::encode via dispatcher, generic arm, protein, 5 bytes
harness!(avx2, 24, c05_dispatch_generic_protein_l5, dispatch_body::<Protein, 5>(Dispatch::Generic));
//@ C05 quick 800 EncodedSequence::encode via dispatcher, AVX2 arm, DNA, 97 bytes (three blocks + 1 tail byte)
harness!(avx2, 100, c05_dispatch_avx2_dna_l97, dispatch_body::<Dna, 97>(Dispatch::Avx2));
//@ C05 quick 800 EncodedSequence::encode via dispatcher, AVX2 arm, protein, 33 bytes
harness!(avx2, 36, c05_dispatch_avx2_protein_l33, dispatch_body::<Protein, 33>(Dispatch::Avx2));
