//! Native replay of a Kani counterexample: `replay <harness> <replay.json>`.
//!
//! The JSON file carries the concrete values Kani printed, one byte vector per
//! nondeterministic primitive in call order. The harness body is the same code
//! Kani verified, now running against the real build and the real intrinsics.
//! Exit status: 101 (panic) = the assertion failure reproduces; 0 = the harness
//! ran to completion; 3 = an assumption was violated; 4 = value stream mismatch.

#[cfg(not(kani))]
mod imp {
    use std::process::exit;

    fn parse_vals(txt: &str) -> Vec<Vec<u8>> {
        // minimal parser for `"vals": [[1,2],[3], ...]`
        let start = txt.find("\"vals\"").expect("no vals key");
        let rest = &txt[start..];
        let open = rest.find('[').expect("no list");
        let mut depth = 0i32;
        let mut out = Vec::new();
        let mut cur: Option<Vec<u8>> = None;
        let mut num = String::new();
        for c in rest[open..].chars() {
            match c {
                '[' => {
                    depth += 1;
                    if depth == 2 {
                        cur = Some(Vec::new());
                    }
                }
                ']' => {
                    if depth == 2 {
                        if !num.is_empty() {
                            cur.as_mut().unwrap().push(num.parse().unwrap());
                            num.clear();
                        }
                        out.push(cur.take().unwrap());
                    }
                    depth -= 1;
                    if depth == 0 {
                        break;
                    }
                }
                ',' => {
                    if depth == 2 && !num.is_empty() {
                        cur.as_mut().unwrap().push(num.parse().unwrap());
                        num.clear();
                    }
                }
                d if d.is_ascii_digit() => num.push(d),
                _ => {}
            }
        }
        out
    }

    /// Fallback when Kani could not print concrete values (trace generation ran out of
    /// memory): the solver has already decided that the harness fails; look for a failing
    /// input by running the same harness body natively on pseudo-random values.
    /// `replay --search <harness> <seed> <seconds> [out.json]`; exit 101 when found.
    fn search(name: &str, seed: u64, seconds: u64, out: Option<&String>) {
        let f = lmverif::replay_table::TABLE
            .iter()
            .find(|(n, _)| *n == name)
            .map(|(_, f)| *f)
            .unwrap_or_else(|| {
                eprintln!("unknown harness {}", name);
                exit(2)
            });
        std::panic::set_hook(Box::new(|_| {}));
        let t0 = std::time::Instant::now();
        let mut iter: u64 = 0;
        let mut admissible: u64 = 0;
        while t0.elapsed().as_secs() < seconds {
            iter += 1;
            lmverif::nd::start_search(seed.wrapping_mul(0x9e37_79b9_7f4a_7c15).wrapping_add(iter.wrapping_mul(0xd134_2543_de82_ef95)));
            let r = std::panic::catch_unwind(f);
            match r {
                Ok(()) => admissible += 1,
                Err(p) => {
                    if p.downcast_ref::<lmverif::nd::AssumeFailed>().is_some() {
                        continue;
                    }
                    let vals = lmverif::nd::drawn();
                    let msg = p
                        .downcast_ref::<String>()
                        .cloned()
                        .or_else(|| p.downcast_ref::<&str>().map(|s| s.to_string()))
                        .unwrap_or_default();
                    let mut js = format!("{{\n \"harness\": \"{}\",\n \"check\": \"found by native search after the solver's verdict: {}\",\n \"vals\": [", name, msg.replace('"', "'"));
                    for (i, v) in vals.iter().enumerate() {
                        if i > 0 {
                            js.push(',');
                        }
                        js.push_str(&format!("{:?}", v));
                    }
                    js.push_str("]\n}\n");
                    if let Some(o) = out {
                        let _ = std::fs::write(o, &js);
                    }
                    eprintln!("REPRODUCED by search: iteration {} ({} admissible): {}", iter, admissible, msg);
                    exit(101);
                }
            }
        }
        eprintln!("search exhausted: {} iterations, {} admissible, no failure", iter, admissible);
        exit(0);
    }

    pub fn main() {
        let args: Vec<String> = std::env::args().collect();
        if args.len() >= 5 && args[1] == "--search" {
            search(&args[2], args[3].parse().unwrap_or(1), args[4].parse().unwrap_or(30), args.get(5));
            return;
        }
        if args.len() < 3 {
            eprintln!("usage: replay <harness> <replay.json>");
            exit(2);
        }
        let txt = std::fs::read_to_string(&args[2]).expect("cannot read replay file");
        let vals = parse_vals(&txt);
        let f = lmverif::replay_table::TABLE
            .iter()
            .find(|(n, _)| *n == args[1])
            .map(|(_, f)| *f)
            .unwrap_or_else(|| {
                eprintln!("unknown harness {}", args[1]);
                exit(2)
            });
        eprintln!("replaying {} with {} concrete value(s)", args[1], vals.len());
        lmverif::nd::load(vals);
        f();
        eprintln!("REPLAY-COMPLETED: harness ran to completion ({} value(s) unused)", lmverif::nd::remaining());
    }

}

#[cfg(not(kani))]
fn main() {
    imp::main()
}

#[cfg(kani)]
fn main() {}
