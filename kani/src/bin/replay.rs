//! Native replay of a Kani counterexample: `replay <harness> <replay.json>`.
//!
//! The JSON file carries the concrete values Kani printed, one byte vector per
//! nondeterministic primitive in call order. The harness body is the same code
//! Kani verified, now running against the real build and the real intrinsics.
//! Exit status: 101 (panic) = the assertion failure reproduces; 0 = the harness
//! ran to completion; 3 = an assumption was violated; 4 = value stream mismatch.

#[cfg(not(kani))]
mod imp {
    use std::process::exit;

    fn parse_vals(txt: &str) -> Vec<Vec<u8>> {
        // minimal parser for `"vals": [[1,2],[3], ...]`
        let start = txt.find("\"vals\"").expect("no vals key");
        let rest = &txt[start..];
        let open = rest.find('[').expect("no list");
        let mut depth = 0i32;
        let mut out = Vec::new();
        let mut cur: Option<Vec<u8>> = None;
        let mut num = String::new();
        for c in rest[open..].chars() {
            match c {
                '[' => {
                    depth += 1;
                    if depth == 2 {
                        cur = Some(Vec::new());
                    }
                }
                ']' => {
                    if depth == 2 {
                        if !num.is_empty() {
                            cur.as_mut().unwrap().push(num.parse().unwrap());
                            num.clear();
                        }
                        out.push(cur.take().unwrap());
                    }
                    depth -= 1;
                    if depth == 0 {
                        break;
                    }
                }
                ',' => {
                    if depth == 2 && !num.is_empty() {
                        cur.as_mut().unwrap().push(num.parse().unwrap());
                        num.clear();
                    }
                }
                d if d.is_ascii_digit() => num.push(d),
                _ => {}
            }
        }
        out
    }

    pub fn main() {
        let args: Vec<String> = std::env::args().collect();
        if args.len() < 3 {
            eprintln!("usage: replay <harness> <replay.json>");
            exit(2);
        }
        let txt = std::fs::read_to_string(&args[2]).expect("cannot read replay file");
        let vals = parse_vals(&txt);
        let f = lmverif::replay_table::TABLE
            .iter()
            .find(|(n, _)| *n == args[1])
            .map(|(_, f)| *f)
            .unwrap_or_else(|| {
                eprintln!("unknown harness {}", args[1]);
                exit(2)
            });
        eprintln!("replaying {} with {} concrete value(s)", args[1], vals.len());
        lmverif::nd::load(vals);
        f();
        eprintln!("REPLAY-COMPLETED: harness ran to completion ({} value(s) unused)", lmverif::nd::remaining());
    }

}

#[cfg(not(kani))]
fn main() {
    imp::main()
}

#[cfg(kani)]
fn main() {}
