//! Differential test of the intrinsic models in `lmverif::models` against the
//! hardware instructions, on edge values and pseudo-random inputs. Every dependent
//! property is inconclusive if any model disagrees. Usage: `modelcheck [seed]`.

#[cfg(not(kani))]
mod imp {
    use core::arch::x86_64::*;
    use core::mem::transmute;
    use lmverif::models as m;

    struct Rng(u64);
    impl Rng {
        fn next(&mut self) -> u64 {
            self.0 ^= self.0 << 13;
            self.0 ^= self.0 >> 7;
            self.0 ^= self.0 << 17;
            self.0
        }
    }

    const F_EDGE: [u32; 14] = [
        0x0000_0000, 0x8000_0000, 0x7f80_0000, 0xff80_0000, 0x7fc0_0000, 0xffc0_0001, 0x0000_0001,
        0x8000_0001, 0x3f80_0000, 0xbf80_0000, 0x7f7f_ffff, 0xff7f_ffff, 0x0080_0000, 0x4b80_0000,
    ];

    fn bytes32(r: &mut Rng, mode: u64) -> [u8; 32] {
        let mut a = [0u8; 32];
        for x in a.iter_mut() {
            let v = r.next();
            *x = match mode % 4 {
                0 => v as u8,
                1 => [0u8, 1, 0x7f, 0x80, 0x81, 0xfe, 0xff, 0x0f, 0x10, 0x8f][(v % 10) as usize],
                2 => (v % 22) as u8,
                _ => (v as u8) & 0x8f,
            };
        }
        a
    }

    fn floats8(r: &mut Rng, mode: u64) -> [u32; 8] {
        let mut a = [0u32; 8];
        for x in a.iter_mut() {
            let v = r.next();
            *x = match mode % 3 {
                0 => v as u32,
                1 => F_EDGE[(v % 14) as usize],
                _ => ((v % 2049) as f32 - 1024.0).to_bits(),
            };
        }
        a
    }

    fn same_f(a: u32, b: u32) -> bool {
        let (fa, fb) = (f32::from_bits(a), f32::from_bits(b));
        a == b || (fa.is_nan() && fb.is_nan())
    }

    #[repr(align(32))]
    struct A32<T>(T);

    #[target_feature(enable = "avx2")]
    unsafe fn run(seed: u64) -> (usize, usize) {
        let mut r = Rng(seed.wrapping_mul(0x9e37_79b9_7f4a_7c15) | 1);
        let mut cases = 0usize;
        let n = 20000;
        macro_rules! chk {
            ($name:expr, $a:expr, $b:expr) => {{
                cases += 1;
                if $a != $b {
                    println!("MODELCHECK MISMATCH {} model={:?} hw={:?}", $name, $a, $b);
                    std::process::exit(1);
                }
            }};
        }
        for it in 0..n as u64 {
            let (a, b, c) = (bytes32(&mut r, it), bytes32(&mut r, it / 4), bytes32(&mut r, it / 16));
            let (va, vb, vc): (__m256i, __m256i, __m256i) = (transmute(a), transmute(b), transmute(c));
            let t = |x: __m256i| -> [u8; 32] { transmute(x) };
            chk!("shuffle_epi8", t(m::mm256_shuffle_epi8(va, vb)), t(_mm256_shuffle_epi8(va, vb)));
            chk!("blendv_epi8", t(m::mm256_blendv_epi8(va, vb, vc)), t(_mm256_blendv_epi8(va, vb, vc)));
            chk!("max_epu8", t(m::mm256_max_epu8(va, vb)), t(_mm256_max_epu8(va, vb)));
            chk!("adds_epu8", t(m::mm256_adds_epu8(va, vb)), t(_mm256_adds_epu8(va, vb)));
            chk!("cmpgt_epi16", t(m::mm256_cmpgt_epi16(va, vb)), t(_mm256_cmpgt_epi16(va, vb)));
            chk!("sub_epi16", t(m::mm256_sub_epi16(va, vb)), t(_mm256_sub_epi16(va, vb)));
            chk!("testz", m::mm256_testz_si256(va, vb), _mm256_testz_si256(va, vb));
            let z = if it % 3 == 0 { _mm256_setzero_si256() } else { _mm256_andnot_si256(va, va) };
            chk!("testz0", m::mm256_testz_si256(z, z), _mm256_testz_si256(z, z));

            let (fa, fb, fc) = (floats8(&mut r, it), floats8(&mut r, it / 3), floats8(&mut r, it / 9));
            let (pa, pb, pc): (__m256, __m256, __m256) = (transmute(fa), transmute(fb), transmute(fc));
            let tf = |x: __m256| -> [u32; 8] { transmute(x) };
            chk!("blendv_ps", tf(m::mm256_blendv_ps(pa, pb, pc)), tf(_mm256_blendv_ps(pa, pb, pc)));
            let idx: __m256i = transmute(fc);
            chk!("permutevar8x32_ps", tf(m::mm256_permutevar8x32_ps(pa, idx)), tf(_mm256_permutevar8x32_ps(pa, idx)));
            chk!("cmp_ps_le_os", tf(m::mm256_cmp_ps::<_CMP_LE_OS>(pa, pb)), tf(_mm256_cmp_ps::<_CMP_LE_OS>(pa, pb)));
            chk!("cmp_ps_le_os_self", tf(m::mm256_cmp_ps::<_CMP_LE_OS>(pa, pa)), tf(_mm256_cmp_ps::<_CMP_LE_OS>(pa, pa)));
            chk!("max_ps", tf(m::mm256_max_ps(pa, pb)), tf(_mm256_max_ps(pa, pb)));
            let (x, y) = (tf(m::mm256_add_ps(pa, pb)), tf(_mm256_add_ps(pa, pb)));
            cases += 1;
            for k in 0..8 {
                if !same_f(x[k], y[k]) {
                    println!("MODELCHECK MISMATCH add_ps");
                    std::process::exit(1);
                }
            }
            let (qa, qb): (__m128, __m128) = (transmute([fa[0], fa[1], fa[2], fa[3]]), transmute([fb[0], fb[1], fb[2], fb[3]]));
            let tq = |x: __m128| -> [u32; 4] { transmute(x) };
            chk!("mm_cmple_ps", tq(m::mm_cmple_ps(qa, qb)), tq(_mm_cmple_ps(qa, qb)));
            let (x, y) = (tq(m::mm_add_ps(qa, qb)), tq(_mm_add_ps(qa, qb)));
            cases += 1;
            for k in 0..4 {
                if !same_f(x[k], y[k]) {
                    println!("MODELCHECK MISMATCH mm_add_ps");
                    std::process::exit(1);
                }
            }
            // gather: table of 24 floats, indices 0..=23
            let mut table = A32([0f32; 24]);
            for (k, x) in table.0.iter_mut().enumerate() {
                *x = f32::from_bits(fa[k % 8] ^ (k as u32));
            }
            let mut ix = [0i32; 8];
            for x in ix.iter_mut() {
                *x = (r.next() % 24) as i32;
            }
            let vi: __m256i = transmute(ix);
            chk!(
                "i32gather_ps",
                tf(m::mm256_i32gather_ps::<4>(table.0.as_ptr(), vi)),
                tf(_mm256_i32gather_ps::<4>(table.0.as_ptr(), vi))
            );
            // aligned loads / stores: functional behaviour
            let buf = A32(a);
            chk!("load_si256", t(m::mm256_load_si256(buf.0.as_ptr() as *const __m256i)), t(_mm256_load_si256(buf.0.as_ptr() as *const __m256i)));
            chk!("load_si128", transmute::<__m128i, [u8; 16]>(m::mm_load_si128(buf.0.as_ptr() as *const __m128i)), transmute::<__m128i, [u8; 16]>(_mm_load_si128(buf.0.as_ptr() as *const __m128i)));
            let fbuf = A32(fa);
            chk!("load_ps", tf(m::mm256_load_ps(fbuf.0.as_ptr() as *const f32)), tf(_mm256_load_ps(fbuf.0.as_ptr() as *const f32)));
            chk!("mm_load_ps", tq(m::mm_load_ps(fbuf.0.as_ptr() as *const f32)), tq(_mm_load_ps(fbuf.0.as_ptr() as *const f32)));
            let (mut o1, mut o2) = (A32([0u8; 32]), A32([0u8; 32]));
            m::mm256_stream_si256(o1.0.as_mut_ptr() as *mut __m256i, va);
            _mm256_stream_si256(o2.0.as_mut_ptr() as *mut __m256i, va);
            _mm_sfence();
            chk!("stream_si256", o1.0, o2.0);
            let (mut p1, mut p2) = (A32([0u32; 8]), A32([0u32; 8]));
            m::mm256_stream_ps(p1.0.as_mut_ptr() as *mut f32, pa);
            _mm256_stream_ps(p2.0.as_mut_ptr() as *mut f32, pa);
            m::mm_stream_ps(p1.0.as_mut_ptr() as *mut f32, qb);
            _mm_stream_ps(p2.0.as_mut_ptr() as *mut f32, qb);
            _mm_sfence();
            chk!("stream_ps", p1.0, p2.0);
        }
        (24, cases)
    }

    pub fn main() {
        let seed: u64 = std::env::args().nth(1).and_then(|s| s.parse().ok()).unwrap_or(0);
        if !std::is_x86_feature_detected!("avx2") {
            println!("MODELCHECK SKIPPED: host has no AVX2");
            std::process::exit(2);
        }
        let (models, cases) = unsafe { run(seed) };
        println!("MODELCHECK OK models={} cases={}", models, cases);
    }

}

#[cfg(not(kani))]
fn main() {
    imp::main()
}

#[cfg(kani)]
fn main() {}
