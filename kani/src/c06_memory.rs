//! C06 — no safe API call reads or writes outside the memory it owns.
//!
//! @functions C06: avx2::stripe_avx2 (block loop + scalar tail) for L around 32*32; avx2::{score_f32_avx2_permute,score_f32_avx2_gather,score_u8_avx2_shuffle} with exactly M-1 look-ahead rows; avx2::{argmax_*,max_*}; sse2::{score_sse2,argmax_sse2,encode_into_sse2}; avx2::encode_into_avx2; seq.rs configure_wrap; dense.rs ravel/fill
//!
//! Kani's memory model checks every dereference (bounds, liveness, null), the
//! preconditions of `slice::from_raw_parts`, `ptr::add` staying in-object, and the
//! aligned load/store models assert their alignment. Those checks are active in
//! every harness of C01-C05, C07, C08 and C19 (a failed one there is reported
//! under that property *and* is a C06 violation); the harnesses below exist only
//! for the memory checks, at sizes the functional harnesses cannot afford:
//! the control flow of striping does not depend on the symbols, so the content is
//! concrete except for a few symbolic symbols, and the 32x32 transpose block runs
//! on constants.

use lightmotif::abc::{Dna, Nucleotide, Protein, Symbol};
use lightmotif::dense::DenseMatrix;
use lightmotif::num::{U21, U32, U5};
use lightmotif::pli::platform::Avx2;
use lightmotif::pli::{Maximum, Pipeline, Score, Stripe};
use lightmotif::scores::StripedScores;
use lightmotif::seq::StripedSequence;

use crate::c04_stripe::SymGen;
use crate::nd;

/// AVX2 striping of `L` symbols (first, middle and last symbolic), then look-ahead
/// rows, then re-striping a shorter sequence into the same buffer.
fn stripe_body<A: SymGen, const L: usize, const L2: usize>() {
    let pli = Pipeline::<A, Avx2>::default();
    // a stack array: CBMC keeps the constants of a typed local array, whereas the
    // content of a heap buffer read back as bytes becomes symbolic and the whole
    // transpose network would have to be bit-blasted (measured: > 14 GB)
    let mut seq = [A::Symbol::default(); L];
    let (a, b, c) = (A::any_sym(), A::any_sym(), A::any_sym());
    if L > 0 {
        seq[0] = a;
        seq[L / 2] = b;
        seq[L - 1] = c;
    }
    let mut st: StripedSequence<A, U32> = pli.stripe(&seq[..]);
    let rows = (L + 31) / 32;
    assert!(st.matrix().rows() == rows);
    // (no assertion about the placement of symbols: in these memory-only harnesses the
    // transpose network is abstracted, see models.rs; placement is C04's subject)
    let _ = (a, b);
    st.configure_wrap(2);
    let seq2 = [c; L2];
    pli.stripe_into(&seq2[..], &mut st);
    assert!(st.len() == L2);
    crate::witness!(L == 0 || c != A::Symbol::default(), "non-wildcard last symbol");
    core::mem::forget(st);
}

/// AVX2 f32 scoring + max/argmax with exactly M-1 look-ahead rows, row range ending
/// on the last sequence row; every symbol is the largest index of the alphabet.
fn score_edge_body<A: SymGen, const R: usize, const M: usize>()
where
    Pipeline<A, Avx2>: Score<f32, A, U32> + Maximum<f32, U32>,
{
    let pli = Pipeline::<A, Avx2>::default();
    let k = <A::K as lightmotif::num::Unsigned>::USIZE;
    let mut pssm = DenseMatrix::<f32, A::K>::new(M);
    for j in 0..M {
        for a in 0..k {
            pssm[j][a] = (j + a) as f32;
        }
    }
    let mut m = DenseMatrix::<A::Symbol, U32>::new(R);
    let last = A::any_sym();
    for r in 0..R {
        for c in 0..32 {
            m[r][c] = A::Symbol::default(); // wildcard = highest index
        }
    }
    m[R - 1][31] = last;
    let mut st = StripedSequence::<A, U32>::new(m, 32 * R).unwrap();
    st.configure_wrap(M - 1);
    // a clone has no spare capacity: its buffer ends exactly after the last
    // look-ahead row, so a kernel that touches one row too many leaves the object
    let st = st.clone();
    let mut scores = StripedScores::<f32, U32>::empty();
    pli.score_rows_into(&pssm, &st, R - 1..R, &mut scores);
    assert!(scores.matrix().rows() == 1);
    let _ = pli.argmax(&scores);
    let _ = pli.max(&scores);
    pli.score_into(&pssm, &st, &mut scores);
    assert!(scores.matrix().rows() == R);
    crate::witness!(last.as_index() == 0, "lowest symbol index");
}

//@ C06 quick 800 AVX2 stripe memory checks, DNA, L=1000 (R=32, last column short: the transpose block must not read past the sequence), then re-stripe L=40 | kani=--no-assertion-reach-checks | mem=12
harness!(avx2mem, 1100, c06_avx2_stripe_dna_l1000, stripe_body::<Dna, 1000, 40>());
//@ C06 thorough 1800 AVX2 stripe memory checks, DNA, L=1024 (one full 32x32 block), then re-stripe L=0 | kani=--no-assertion-reach-checks | mem=20
harness!(avx2mem, 1100, c06_avx2_stripe_dna_l1024, stripe_body::<Dna, 1024, 0>());
//@ C06 quick 800 AVX2 stripe memory checks, DNA, L=993 (smallest length entering the block loop with a partial last column) | kani=--no-assertion-reach-checks | mem=12
harness!(avx2mem, 1100, c06_avx2_stripe_dna_l993, stripe_body::<Dna, 993, 33>());
//@ C06 thorough 1800 AVX2 stripe memory checks, protein, L=1056 (R=33: one block + one scalar row) | kani=--no-assertion-reach-checks | mem=20
harness!(avx2mem, 1100, c06_avx2_stripe_protein_l1056, stripe_body::<Protein, 1056, 1>());
/// AVX2 / dispatcher u8 scoring on an exactly-sized (cloned) sequence with M-1 look-ahead rows
fn score_u8_edge_body<const R: usize, const M: usize>(arm: lightmotif::pli::dispatch::Dispatch) {
    use lightmotif::pli::dispatch::{set_verif_override, Dispatch};
    set_verif_override(Some(arm));
    let pli = Pipeline::<Dna, Dispatch>::dispatch();
    let mut dm = DenseMatrix::<u8, U5>::new(M);
    for j in 0..M {
        for a in 0..5 {
            dm[j][a] = (40 * j + a) as u8;
        }
    }
    let mut m = DenseMatrix::<Nucleotide, U32>::new(R);
    let last = Dna::any_sym();
    for r in 0..R {
        for c in 0..32 {
            m[r][c] = Nucleotide::N;
        }
    }
    m[R - 1][31] = last;
    let mut st = StripedSequence::<Dna, U32>::new(m, 32 * R).unwrap();
    st.configure_wrap(M - 1);
    let st = st.clone();
    let mut scores = StripedScores::<u8, U32>::empty();
    pli.score_rows_into(&dm, &st, R - 1..R, &mut scores);
    assert!(scores.matrix().rows() == 1);
    let _ = pli.max(&scores);
    let _ = pli.argmax(&scores);
    pli.score_into(&dm, &st, &mut scores);
    assert!(scores.matrix().rows() == R);
    crate::witness!(last.as_index() == 0, "lowest symbol index");
}

//@ C06 quick 800 AVX2 u8 shuffle scoring + max/argmax via dispatcher, DNA, R=2, M=2, exactly-sized sequence buffer
harness!(avx2, 40, c06_avx2_score_u8_edge_r2_m2, score_u8_edge_body::<2, 2>(lightmotif::pli::dispatch::Dispatch::Avx2));
//@ C06 quick 800 AVX2 u8 shuffle scoring + max/argmax via dispatcher, DNA, R=2, M=3, exactly-sized sequence buffer
harness!(avx2, 40, c06_avx2_score_u8_edge_r2_m3, score_u8_edge_body::<2, 3>(lightmotif::pli::dispatch::Dispatch::Avx2));
//@ C06 quick 800 generic u8 scoring + max/argmax via dispatcher (SSE2 arm), DNA, R=1, M=2, exactly-sized sequence buffer
harness!(avx2, 40, c06_generic_score_u8_edge_r1_m2, score_u8_edge_body::<1, 2>(lightmotif::pli::dispatch::Dispatch::Sse2));
//@ C06 quick 800 AVX2 permute scoring + max/argmax, DNA, R=2, M=2, exactly M-1 look-ahead rows, last row range
harness!(avx2, 40, c06_avx2_score_edge_dna_r2_m2, score_edge_body::<Dna, 2, 2>());
//@ C06 quick 800 AVX2 permute scoring + max/argmax, DNA, R=2, M=3, exactly M-1 look-ahead rows, last row range
harness!(avx2, 40, c06_avx2_score_edge_dna_r2_m3, score_edge_body::<Dna, 2, 3>());
//@ C06 quick 800 AVX2 gather scoring + max/argmax, protein, R=1, M=2, symbol index 20 everywhere
harness!(avx2, 40, c06_avx2_score_edge_protein_r1_m2, score_edge_body::<Protein, 1, 2>());
//@ C06 extended 3600 AVX2 stripe memory checks, DNA, L=1023 | kani=--no-assertion-reach-checks | mem=20
harness!(avx2mem, 1100, c06_avx2_stripe_dna_l1023, stripe_body::<Dna, 1023, 1000>());
//@ C06 thorough 1850 AVX2 stripe memory checks, DNA, L=2047 (R=64: two blocks, partial last column) | kani=--no-assertion-reach-checks | mem=20
harness!(avx2mem, 2100, c06_avx2_stripe_dna_l2047, stripe_body::<Dna, 2047, 32>());
//@ C06 thorough 1800 AVX2 stripe memory checks, DNA, L=1025 (R=33) | kani=--no-assertion-reach-checks | mem=20
harness!(avx2mem, 1100, c06_avx2_stripe_dna_l1025, stripe_body::<Dna, 1025, 1024>());
