//! C04 — striping is a lossless, backend-independent rearrangement of the sequence.
//!
//! @functions C04: pli::Stripe::{stripe,stripe_into} (default); avx2::stripe_avx2 / Avx2::stripe_into; dispatch.rs Stripe arm; seq.rs StripedSequence::{new,configure_wrap,Index,len,wrap,matrix,into_matrix}; seq.rs SymbolCount for StripedSequence; seq.rs EncodedSequence::to_striped; dense.rs DenseMatrix::{with_capacity,reserve,resize,Index,IndexMut}
//!
//! Oracle (one formula for sequence rows and look-ahead rows alike): with
//! R = ceil(L/C), the cell at matrix row p (0 <= p < R + wrap) and column c holds
//! symbol number c*R + p of the sequence when that number is < L, and the wildcard
//! otherwise. For p < R this is the striping definition; for p >= R it says that
//! look-ahead row k is row k shifted left by one column with a wildcard entering
//! on the right (and keeps saying the right thing when the wrap is wider than R).

use generic_array::ArrayLength;
use lightmotif::abc::{Alphabet, Dna, Protein, Symbol};
use lightmotif::num::{StrictlyPositive, Unsigned, U1, U16, U2, U32, U4};
use lightmotif::pli::dispatch::{set_verif_override, Dispatch};
use lightmotif::pli::platform::{Avx2, Generic};
use lightmotif::pli::{Pipeline, Stripe};
use lightmotif::seq::{EncodedSequence, StripedSequence, SymbolCount};

use crate::nd;
use crate::refs;

pub trait SymGen: Alphabet {
    fn any_sym() -> Self::Symbol;
}
impl SymGen for Dna {
    fn any_sym() -> Self::Symbol {
        refs::nuc(nd::u8_in(0, 4))
    }
}
impl SymGen for Protein {
    fn any_sym() -> Self::Symbol {
        refs::aa(nd::u8_in(0, 20))
    }
}

pub fn any_seq<A: SymGen, const L: usize>() -> [A::Symbol; L] {
    let mut s = [A::Symbol::default(); L];
    let mut i = 0;
    while i < L {
        s[i] = A::any_sym();
        i += 1;
    }
    s
}

/// The whole oracle: shape, every cell of every row, indexing, counting.
pub fn check_striped<A: SymGen, C: StrictlyPositive + ArrayLength, const L: usize>(
    st: &StripedSequence<A, C>,
    seq: &[A::Symbol; L],
    wrap: usize,
) {
    let c_ = C::USIZE;
    let r_ = (L + c_ - 1) / c_;
    assert!(st.len() == L, "striped length differs from the sequence length");
    assert!(st.wrap() == wrap, "unexpected number of look-ahead rows");
    assert!(st.matrix().rows() == r_ + wrap, "unexpected number of matrix rows");
    for p in 0..r_ + wrap {
        for c in 0..c_ {
            let j = c * r_ + p;
            let want = if j < L { seq[j] } else { A::Symbol::default() };
            assert!(st.matrix()[p][c] == want, "wrong symbol in a striped cell");
        }
    }
    for i in 0..L {
        assert!(st[i] == seq[i], "Index<usize> disagrees with the linear sequence");
    }
    // symbol counts equal the linear counts. Equality of two differently ordered
    // population counts is a hard SAT problem (cardinality), so it is decided on
    // narrow layouts only; the counting code is the same generic loop for every C.
    if C::USIZE > 4 {
        return;
    }
    let counts = SymbolCount::<A>::count_symbols(st);
    let probe = A::any_sym();
    let mut n = 0usize;
    for i in 0..L {
        if seq[i] == probe {
            n += 1;
        }
    }
    assert!(counts[probe.as_index()] == n, "count_symbols disagrees with the linear count");
    assert!(SymbolCount::<A>::count_symbol(st, probe) == n, "count_symbol disagrees");
}

/// fresh stripe
fn fresh_body<A: SymGen, C: StrictlyPositive + ArrayLength, P: Stripe<A, C>, const L: usize>(
    pli: &P,
) {
    let seq = any_seq::<A, L>();
    let st = pli.stripe(&seq[..]);
    check_striped::<A, C, L>(&st, &seq, 0);
    crate::witness!(L == 0 || seq[L - 1] != A::Symbol::default(), "non-wildcard last symbol");
}

/// fresh stripe, two configure_wrap calls, then reuse of the buffer for another sequence
fn history_body<
    A: SymGen,
    C: StrictlyPositive + ArrayLength,
    P: Stripe<A, C>,
    const L: usize,
    const M1: usize,
    const M2: usize,
    const L2: usize,
>(
    pli: &P,
) {
    let seq = any_seq::<A, L>();
    let mut st = pli.stripe(&seq[..]);
    st.configure_wrap(M1);
    check_striped::<A, C, L>(&st, &seq, M1);
    st.configure_wrap(M2);
    check_striped::<A, C, L>(&st, &seq, if M2 > M1 { M2 } else { M1 });
    // reuse: stale content and look-ahead rows must not leak
    let seq2 = any_seq::<A, L2>();
    pli.stripe_into(&seq2[..], &mut st);
    check_striped::<A, C, L2>(&st, &seq2, 0);
    st.configure_wrap(M1);
    check_striped::<A, C, L2>(&st, &seq2, M1);
    crate::witness!(L2 == 0 || seq2[L2 - 1] != A::Symbol::default(), "non-wildcard last symbol");
}

/// `EncodedSequence::to_striped` through the dispatcher, arm forced by the hook
fn dispatch_body<A: SymGen, const L: usize, const M: usize>(arm: Dispatch) {
    set_verif_override(Some(arm));
    let seq = any_seq::<A, L>();
    let enc = EncodedSequence::<A>::new(seq.to_vec());
    let mut st: StripedSequence<A, U32> = enc.to_striped();
    check_striped::<A, U32, L>(&st, &seq, 0);
    st.configure_wrap(M);
    check_striped::<A, U32, L>(&st, &seq, M);
    crate::witness!(L == 0 || seq[L - 1] != A::Symbol::default(), "non-wildcard last symbol");
}

/// count_symbols / count_symbol on a 32-lane striped sequence with look-ahead rows:
/// L = 40 symbols of which six (at the ends of rows / columns) are symbolic.
fn count_body<A: SymGen>() {
    const L: usize = 40;
    let spots = [0usize, 1, 19, 20, 38, 39];
    let mut seq = [A::Symbol::default(); L];
    let fixed = A::any_sym();
    for i in 0..L {
        seq[i] = fixed;
    }
    for &i in spots.iter() {
        seq[i] = A::any_sym();
    }
    let pli = Pipeline::<A, Generic>::generic();
    let mut st: StripedSequence<A, U32> = pli.stripe(&seq[..]);
    st.configure_wrap(3);
    let counts = SymbolCount::<A>::count_symbols(&st);
    let probe = A::any_sym();
    let mut n = 0usize;
    for i in 0..L {
        if seq[i] == probe {
            n += 1;
        }
    }
    assert!(counts[probe.as_index()] == n, "count_symbols disagrees with the linear count");
    assert!(SymbolCount::<A>::count_symbol(&st, probe) == n, "count_symbol disagrees");
    crate::witness!(n == 3, "three occurrences");
}

/// reuse of one buffer through the dispatcher (`Pipeline::dispatch().stripe_into`)
fn dispatch_history_body<A: SymGen, const L: usize, const L2: usize>(arm: Dispatch) {
    set_verif_override(Some(arm));
    let pli = Pipeline::<A, Dispatch>::dispatch();
    history_body::<A, U32, _, L, 1, 0, L2>(&pli);
}

fn generic<A: Alphabet>() -> Pipeline<A, Generic> {
    Pipeline::generic()
}
fn avx2<A: Alphabet>() -> Pipeline<A, Avx2> {
    Pipeline::default()
}

// --- generic, fresh ------------------------------------------------------------------
//@ C04 quick 800 generic stripe, DNA, C=1, L=3
harness!(none, 40, c04_generic_dna_c1_l3, fresh_body::<Dna, U1, _, 3>(&generic()));
//@ C04 quick 800 generic stripe, DNA, C=2, L=5
harness!(none, 40, c04_generic_dna_c2_l5, fresh_body::<Dna, U2, _, 5>(&generic()));
//@ C04 quick 800 generic stripe, DNA, C=4, L=0
harness!(none, 40, c04_generic_dna_c4_l0, fresh_body::<Dna, U4, _, 0>(&generic()));
//@ C04 quick 800 generic stripe, DNA, C=4, L=9
harness!(none, 40, c04_generic_dna_c4_l9, fresh_body::<Dna, U4, _, 9>(&generic()));
//@ C04 quick 800 generic stripe, DNA, C=16, L=17
harness!(none, 40, c04_generic_dna_c16_l17, fresh_body::<Dna, U16, _, 17>(&generic()));
//@ C04 quick 800 generic stripe, DNA, C=32, L=33
harness!(none, 70, c04_generic_dna_c32_l33, fresh_body::<Dna, U32, _, 33>(&generic()));
//@ C04 quick 800 generic stripe, protein, C=4, L=5
harness!(none, 40, c04_generic_protein_c4_l5, fresh_body::<Protein, U4, _, 5>(&generic()));
//@ C04 quick 800 generic stripe, DNA, C=32, L=65
harness!(none, 100, c04_generic_dna_c32_l65, fresh_body::<Dna, U32, _, 65>(&generic()));
//@ C04 quick 800 generic stripe, protein, C=32, L=33
harness!(none, 70, c04_generic_protein_c32_l33, fresh_body::<Protein, U32, _, 33>(&generic()));
//@ C04 quick 800 generic stripe, DNA, C=16, L=32
harness!(none, 40, c04_generic_dna_c16_l32, fresh_body::<Dna, U16, _, 32>(&generic()));

// --- generic, histories (C=4: R=2 or 3) -----------------------------------------------------
//@ C04 quick 800 generic: stripe L=5 (R=2), configure_wrap(1), configure_wrap(3), stripe_into L=9, configure_wrap(1)
harness!(none, 40, c04_generic_hist_c4_l5_w1_w3_l9, history_body::<Dna, U4, _, 5, 1, 3, 9>(&generic()));
//@ C04 quick 800 generic: stripe L=9 (R=3), configure_wrap(4) wider than R, configure_wrap(2) no-op, stripe_into L=3
harness!(none, 40, c04_generic_hist_c4_l9_w4_w2_l3, history_body::<Dna, U4, _, 9, 4, 2, 3>(&generic()));
//@ C04 quick 800 generic: stripe L=4, configure_wrap(0), configure_wrap(2), stripe_into L=0
harness!(none, 40, c04_generic_hist_c4_l4_w0_w2_l0, history_body::<Dna, U4, _, 4, 0, 2, 0>(&generic()));
//@ C04 quick 800 generic: stripe L=8 (R=2, full), configure_wrap(1), stripe_into L=5 (a whole padding column over stale symbols), configure_wrap(1)
harness!(none, 40, c04_generic_hist_c4_l8_w1_w0_l5, history_body::<Dna, U4, _, 8, 1, 0, 5>(&generic()));
//@ C04 quick 800 generic: stripe L=32 (C=16, R=2), configure_wrap(2), stripe_into L=17 (whole padding columns), configure_wrap(2)
harness!(none, 40, c04_generic_hist_c16_l32_w2_w0_l17, history_body::<Dna, U16, _, 32, 2, 0, 17>(&generic()));
//@ C04 quick 800 generic: protein C=2 L=5 (R=3), wrap 2 then 5, reuse with L=6
harness!(none, 40, c04_generic_hist_prot_c2_l5_w2_w5_l6, history_body::<Protein, U2, _, 5, 2, 5, 6>(&generic()));

//@ C04 quick 800 count_symbols / count_symbol on a 32-lane striped DNA sequence with 3 look-ahead rows (L=40, 6 symbolic symbols)
harness!(none, 70, c04_count_dna_c32, count_body::<Dna>());
//@ C04 quick 800 count_symbols / count_symbol on a 32-lane striped protein sequence with 3 look-ahead rows
harness!(none, 70, c04_count_protein_c32, count_body::<Protein>());

// --- AVX2 (scalar path for L < 1024; 32x32 transpose block from L >= 993) ---------------------
//@ C04 quick 800 AVX2 stripe, DNA, L=0
harness!(avx2, 70, c04_avx2_dna_l0, fresh_body::<Dna, U32, _, 0>(&avx2()));
//@ C04 quick 800 AVX2 stripe, DNA, L=1
harness!(avx2, 70, c04_avx2_dna_l1, fresh_body::<Dna, U32, _, 1>(&avx2()));
//@ C04 quick 800 AVX2 stripe, DNA, L=32
harness!(avx2, 70, c04_avx2_dna_l32, fresh_body::<Dna, U32, _, 32>(&avx2()));
//@ C04 quick 800 AVX2 stripe, DNA, L=33
harness!(avx2, 70, c04_avx2_dna_l33, fresh_body::<Dna, U32, _, 33>(&avx2()));
//@ C04 quick 800 AVX2 stripe, protein, L=33
harness!(avx2, 70, c04_avx2_protein_l33, fresh_body::<Protein, U32, _, 33>(&avx2()));
//@ C04 quick 800 AVX2: stripe L=64 (R=2, full), configure_wrap(1), configure_wrap(3), stripe_into L=33 (whole padding columns over stale symbols), configure_wrap(1)
harness!(avx2, 100, c04_avx2_hist_l64_w1_w3_l33, history_body::<Dna, U32, _, 64, 1, 3, 33>(&avx2()));
//@ C04 quick 800 AVX2: stripe L=33 (R=2), configure_wrap(1), configure_wrap(3), stripe_into L=65, configure_wrap(1)
harness!(avx2, 100, c04_avx2_hist_l33_w1_w3_l65, history_body::<Dna, U32, _, 33, 1, 3, 65>(&avx2()));
//@ C04 quick 800 dispatcher (SSE2 arm = generic striping), C=32: stripe L=64, stripe_into L=33 into the same buffer
harness!(avx2, 100, c04_dispatch_sse2_hist_l64_l33, dispatch_history_body::<Dna, 64, 33>(Dispatch::Sse2));
//@ C04 quick 800 AVX2: stripe L=65 (R=3), configure_wrap(4), configure_wrap(2), stripe_into L=0
harness!(avx2, 100, c04_avx2_hist_l65_w4_w2_l0, history_body::<Dna, U32, _, 65, 4, 2, 0>(&avx2()));
//@ C04 quick 800 AVX2 stripe, DNA, L=65
harness!(avx2, 100, c04_avx2_dna_l65, fresh_body::<Dna, U32, _, 65>(&avx2()));

// --- dispatcher arms ---------------------------------------------------------------------------
//@ C04 quick 800 EncodedSequence::to_striped via dispatcher, AVX2 arm, DNA L=33, configure_wrap(2)
harness!(avx2, 70, c04_dispatch_avx2_dna_l33, dispatch_body::<Dna, 33, 2>(Dispatch::Avx2));
//@ C04 quick 800 EncodedSequence::to_striped via dispatcher, SSE2 arm (generic striping), DNA L=33, configure_wrap(2)
harness!(avx2, 70, c04_dispatch_sse2_dna_l33, dispatch_body::<Dna, 33, 2>(Dispatch::Sse2));
//@ C04 quick 800 EncodedSequence::to_striped via dispatcher, generic arm, protein L=34, configure_wrap(1)
harness!(avx2, 70, c04_dispatch_generic_protein_l34, dispatch_body::<Protein, 34, 1>(Dispatch::Generic));
