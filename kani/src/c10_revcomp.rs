//! C10 — reverse-complementing a motif mirrors its scores on the opposite strand.
//!
//! @functions C10: pwm {CountMatrix,FrequencyMatrix,WeightMatrix,ScoringMatrix}::reverse_complement; abc ComplementableSymbol for Nucleotide; pwm CountMatrix::to_freq, FrequencyMatrix::{to_weight,to_scoring}, WeightMatrix::to_scoring; pwm ScoringMatrix::score_position; pli Stripe (generic)

use generic_array::GenericArray;
use lightmotif::abc::{Background, ComplementableSymbol, Dna, Nucleotide, Symbol};
use lightmotif::dense::DenseMatrix;
use lightmotif::num::{U4, U5};
use lightmotif::pli::{Pipeline, Stripe};
use lightmotif::pwm::{CountMatrix, FrequencyMatrix, ScoringMatrix};

use crate::c09_convert::log_harness;
use crate::nd;
use crate::refs::nuc;

fn any_counts<const M: usize>() -> DenseMatrix<u32, U5> {
    let mut d = DenseMatrix::<u32, U5>::new(M);
    for i in 0..M {
        for j in 0..5 {
            d[i][j] = nd::u8_in(0, 7) as u32;
        }
    }
    d
}

fn any_floats<const M: usize>() -> DenseMatrix<f32, U5> {
    let mut d = DenseMatrix::<f32, U5>::new(M);
    for i in 0..M {
        for j in 0..5 {
            let x = nd::f32_();
            nd::assume(!x.is_nan());
            d[i][j] = x;
        }
    }
    d
}

/// specification of the complement, written independently
fn comp(i: usize) -> usize {
    match i {
        0 => 2, // A <-> T
        2 => 0,
        1 => 3, // C <-> G
        3 => 1,
        _ => 4, // N <-> N
    }
}

/// rc(rc(m)) == m and rc(m)[i][s] == m[M-1-i][comp(s)] for the four matrix kinds
fn involution_body<const M: usize>() {
    for s in 0..5u8 {
        assert!(nuc(s).complement().as_index() == comp(s as usize), "complement table");
    }
    let c = any_counts::<M>();
    let cm = CountMatrix::<Dna>::new(c.clone()).unwrap();
    let rc = cm.reverse_complement();
    assert!(rc.reverse_complement() == cm, "count matrix: rc twice is not the identity");
    for i in 0..M {
        for s in 0..5 {
            assert!(rc.matrix()[i][s] == c[M - 1 - i][comp(s)], "count matrix: wrong mirrored cell");
        }
    }
    let f = any_floats::<M>();
    let sm = ScoringMatrix::<Dna>::new(Background::uniform(), f.clone());
    let rs = sm.reverse_complement();
    assert!(rs.reverse_complement() == sm, "scoring matrix: rc twice is not the identity");
    for i in 0..M {
        for s in 0..5 {
            assert!(rs.matrix()[i][s] == f[M - 1 - i][comp(s)], "scoring matrix: wrong mirrored cell");
        }
    }
    crate::witness!(f[0][0] != f[M - 1][2], "asymmetric matrix");
}

/// frequency and weight matrices (frequencies produced by the real `to_freq`)
fn involution_freq_body<const M: usize>() {
    let (fm, d) = crate::c09_convert::freq_from_counts::<M>();
    let rf = fm.reverse_complement();
    assert!(rf.reverse_complement() == fm, "frequency matrix: rc twice is not the identity");
    let wm = fm.to_weight(None);
    let rw = wm.reverse_complement();
    assert!(rw.reverse_complement() == wm, "weight matrix: rc twice is not the identity");
    for i in 0..M {
        for s in 0..5 {
            assert!(rf.matrix()[i][s] == d[M - 1 - i][comp(s)]);
            assert!(rw.matrix()[i][s] == wm.matrix()[M - 1 - i][comp(s)]);
        }
    }
    crate::witness!(d[0][0] != d[M - 1][2], "asymmetric matrix");
}

/// rc commutes with count -> frequency -> score under a strand-symmetric background
fn commute_body<const M: usize>() {
    let c = any_counts::<M>();
    let cm = CountMatrix::<Dna>::new(c).unwrap();
    // symmetric background on the lattice k/64: bg[A]=bg[T], bg[C]=bg[G], bg[N]=0
    let a = nd::u8_in(1, 3);
    let f = [a as f32 / 8.0, (4 - a) as f32 / 8.0, a as f32 / 8.0, (4 - a) as f32 / 8.0, 0.0];
    let bg = Background::<Dna>::new(GenericArray::from(f)).expect("valid background");
    let p = (nd::u8_in(0, 3) as f32) / 4.0;
    let left = cm.reverse_complement().to_freq(p).to_scoring(bg.clone());
    let right = cm.to_freq(p).to_scoring(bg.clone()).reverse_complement();
    let mut total0 = 0.0f32;
    for j in 0..5 {
        total0 += cm.matrix()[0][j] as f32;
    }
    nd::assume(total0 + p > 0.0);
    for i in 0..M {
        for s in 0..5 {
            let (x, y) = (left.matrix()[i][s], right.matrix()[i][s]);
            assert!(x == y || (x.is_nan() && y.is_nan()), "rc does not commute with the conversions");
        }
    }
    let wl = cm.reverse_complement().to_freq(p).to_weight(bg.clone());
    let wr = cm.to_freq(p).to_weight(bg).reverse_complement();
    for s in 0..5 {
        let (x, y) = (wl.matrix()[0][s], wr.matrix()[0][s]);
        assert!(x == y || (x.is_nan() && y.is_nan()), "rc does not commute with to_weight");
    }
    crate::witness!(left.matrix()[0][0] != left.matrix()[M - 1][2], "asymmetric result");
}

/// rc matrix at position L-M-i of the rc sequence == original matrix at position i
fn strand_body<const M: usize, const L: usize>() {
    let mut d = DenseMatrix::<f32, U5>::new(M);
    for i in 0..M {
        for j in 0..5 {
            let k = nd::i8_();
            d[i][j] = if k == -128 { f32::NEG_INFINITY } else { k as f32 };
        }
    }
    let pssm = ScoringMatrix::<Dna>::new(Background::uniform(), d);
    let rc = pssm.reverse_complement();
    let seq: [Nucleotide; L] = core::array::from_fn(|_| nuc(nd::u8_in(0, 4)));
    let rseq: [Nucleotide; L] = core::array::from_fn(|i| seq[L - 1 - i].complement());
    let pli = Pipeline::<Dna, _>::generic();
    let mut st = <Pipeline<Dna, _> as Stripe<Dna, U4>>::stripe(&pli, &seq[..]);
    let mut rst = <Pipeline<Dna, _> as Stripe<Dna, U4>>::stripe(&pli, &rseq[..]);
    st.configure(&pssm);
    rst.configure(&rc);
    let i = nd::usize_in(0, L - M);
    let fwd = pssm.score_position(&st, i);
    let rev = rc.score_position(&rst, L - M - i);
    assert!(fwd == rev, "reverse strand score differs");
    crate::witness!(fwd > 0.0 && i == L - M, "finite positive score at the last position");
}

//@ C10 quick 800 rc involution + mirrored cells, count and scoring matrices, M=2, arbitrary cells
harness!(none, 24, c10_involution_m2, involution_body::<2>());
//@ C10 quick 800 rc involution + mirrored cells, count and scoring matrices, M=3
harness!(none, 24, c10_involution_m3, involution_body::<3>());
//@ C10 quick 800 rc involution, frequency and weight matrices, M=2
harness!(none, 24, c10_involution_freq_m2, involution_freq_body::<2>());
//@ C10 thorough 3253 rc commutes with to_freq/to_scoring/to_weight, symmetric background, M=1 (counts <= 7)
log_harness!(8, c10_commute_m1, commute_body::<1>());
//@ C10 extended 10800 rc commutes with conversions, M=2
log_harness!(8, c10_commute_m2, commute_body::<2>());
//@ C10 quick 800 opposite-strand score identity, M=2, L=5, symbolic matrix and sequence
harness!(none, 8, c10_strand_m2_l5, strand_body::<2, 5>());
//@ C10 quick 800 opposite-strand score identity, M=3, L=6
harness!(none, 8, c10_strand_m3_l6, strand_body::<3, 6>());
//@ C10 quick 800 rc involution, M=1
harness!(none, 24, c10_involution_m1, involution_body::<1>());
//@ C10 extended 5400 rc commutes with conversions, M=3
log_harness!(8, c10_commute_m3, commute_body::<3>());
//@ C10 quick 800 opposite-strand score identity, M=1, L=4
harness!(none, 8, c10_strand_m1_l4, strand_body::<1, 4>());
