//! C07 — maximum, arg-maximum and thresholding of striped scores.
//!
//! @functions C07: pli::Maximum::{argmax,max} (default); pli::Threshold::threshold (default); sse2::argmax_sse2; avx2::{argmax_f32_avx2,max_f32_avx2,argmax_u8_avx2,max_u8_avx2}; dispatch.rs Maximum arms; scores.rs StripedScores::{max,argmax,threshold,offset,resize,is_empty}
//!
//! The score matrix is filled through `matrix_mut()` with arbitrary non-NaN f32
//! (the code only compares, so the whole float domain is affordable) or arbitrary
//! u8. Oracles state the definitions only: which of several maxima is designated
//! and the order of the threshold list are left free.

use generic_array::ArrayLength;
use lightmotif::abc::Dna;
use lightmotif::dense::MatrixCoordinates;
use lightmotif::num::{StrictlyPositive, Unsigned, U16, U2, U32, U4};
use lightmotif::pli::dispatch::{set_verif_override, Dispatch};
use lightmotif::pli::platform::{Avx2, Generic, Sse2};
use lightmotif::pli::{Maximum, Pipeline, Threshold};
use lightmotif::scores::StripedScores;

use crate::nd;

pub trait Elem: lightmotif::dense::MatrixElement + PartialOrd + core::fmt::Debug {
    fn any() -> Self;
}
impl Elem for f32 {
    /// 256-value float domain: k/4 for k in -120..=120 plus the order-relevant
    /// special values (+-inf, +-0, largest / smallest finite, subnormals). The code
    /// under test only compares, so what matters is the order type of the cells;
    /// arbitrary non-NaN floats did not produce a verdict in 15 min (DESIGN.md C07).
    fn any() -> f32 {
        let k = nd::i8_();
        match k {
            -128 => f32::NEG_INFINITY,
            -127 => f32::INFINITY,
            -126 => -0.0,
            -125 => f32::MIN,
            -124 => f32::MAX,
            -123 => f32::from_bits(0x0000_0001),
            -122 => f32::from_bits(0x8000_0001),
            -121 => f32::MIN_POSITIVE,
            121..=127 => -(k as f32) * 1.0e30,
            _ => (k as f32) / 4.0,
        }
    }
}
impl Elem for u8 {
    fn any() -> u8 {
        nd::u8_()
    }
}

/// Fill an `R x C` score matrix with symbolic cells; also returns a shadow copy
/// (plain local array) that the oracles read instead of the matrix.
pub fn fill<T: Elem, C: StrictlyPositive + ArrayLength, const R: usize>(
) -> (StripedScores<T, C>, [[T; 32]; R]) {
    let mut s = StripedScores::<T, C>::empty();
    s.resize(R, R * C::USIZE);
    let mut shadow = [[T::default(); 32]; R];
    let mut r = 0;
    while r < R {
        let mut c = 0;
        while c < C::USIZE {
            let x = T::any();
            s.matrix_mut()[r][c] = x;
            shadow[r][c] = x;
            c += 1;
        }
        r += 1;
    }
    (s, shadow)
}

/// max and argmax of one pipeline against their definitions.
fn max_argmax_body<T: Elem, C: StrictlyPositive + ArrayLength, P: Maximum<T, C>, const R: usize>(
    pli: &P,
) {
    let (s, cell) = fill::<T, C, R>();
    let m = pli.max(&s).expect("max of a non-empty matrix");
    let mc = pli.argmax(&s).expect("argmax of a non-empty matrix");
    assert!(mc.row < R && mc.col < C::USIZE, "argmax outside the matrix");
    let best = cell[mc.row][mc.col];
    let mut attained = false;
    for i in 0..R {
        for j in 0..C::USIZE {
            // maximum: an upper bound of every cell ...
            assert!(m >= cell[i][j], "reported maximum is below a stored value");
            // arg-maximum: designates a cell that no other cell exceeds
            assert!(best >= cell[i][j], "argmax cell is below a stored value");
            if cell[i][j] == m {
                attained = true;
            }
        }
    }
    // ... attained by some cell
    assert!(attained, "reported maximum is not a stored value");
    crate::witness!(
        mc.row == R - 1 && mc.col == C::USIZE - 1 && best > cell[0][0],
        "maximum in the last cell"
    );
}

fn empty_body<T: Elem, C: StrictlyPositive + ArrayLength, P: Maximum<T, C>>(pli: &P) {
    let s = StripedScores::<T, C>::empty();
    let flag = nd::bool_();
    assert!(pli.max(&s).is_none());
    assert!(pli.argmax(&s).is_none());
    crate::witness!(flag, "empty matrix examined");
}

/// `StripedScores::{max, argmax}` through the dispatcher, arm forced by the hook.
fn dispatch_body<T: Elem, const R: usize>(arm: Dispatch)
where
    Pipeline<Dna, Dispatch>: Maximum<T, U32>,
{
    set_verif_override(Some(arm));
    let (s, cell) = fill::<T, U32, R>();
    let m = s.max().expect("max of a non-empty matrix");
    let off = s.argmax().expect("argmax of a non-empty matrix");
    assert!(off < R * 32);
    // offset = col * rows + row
    let best = cell[off % R][off / R];
    assert!(best == m, "max and argmax disagree");
    for i in 0..R {
        for j in 0..32 {
            assert!(m >= cell[i][j], "reported maximum is below a stored value");
        }
    }
    assert!(s[off] == best, "Index<usize> disagrees with the offset mapping");
    crate::witness!(off == R * 32 - 1 && best > cell[0][0], "maximum in the last cell");
}

/// threshold against its definition (each qualifying cell exactly once, nothing
/// else). Every backend uses this one default implementation.
fn threshold_body<T: Elem, C: StrictlyPositive + ArrayLength, P: Threshold<T, C>, const R: usize>(
    pli: &P,
) {
    let (s, cell) = fill::<T, C, R>();
    let t = T::any();
    let list: Vec<MatrixCoordinates> = pli.threshold(&s, t);
    let mut count = 0usize;
    let mut seen = [[0u8; 32]; R];
    for mc in list.iter() {
        assert!(mc.row < R && mc.col < C::USIZE, "listed cell outside the matrix");
        seen[mc.row][mc.col] += 1;
    }
    for i in 0..R {
        for j in 0..C::USIZE {
            if cell[i][j] >= t {
                count += 1;
                assert!(seen[i][j] == 1, "qualifying cell not listed exactly once");
            } else {
                assert!(seen[i][j] == 0, "cell below the threshold listed");
            }
        }
    }
    assert!(list.len() == count);
    crate::witness!(count == 2 && seen[R - 1][C::USIZE - 1] == 1, "two qualifying cells");
    core::mem::forget(list);
}

pub trait Bottom {
    fn bottom() -> Self;
}
impl Bottom for f32 {
    fn bottom() -> f32 {
        f32::NEG_INFINITY
    }
}
impl Bottom for u8 {
    fn bottom() -> u8 {
        0
    }
}

/// `StripedScores::threshold` (dispatcher + offset mapping), C = 32 forced by the
/// type: all cells hold the minimum except four symbolic cells at fixed places.
fn threshold_dispatch_body<T: Elem + Bottom, const R: usize>(arm: Dispatch)
where
    Pipeline<Dna, Dispatch>: Threshold<T, U32>,
{
    set_verif_override(Some(arm));
    let mut s = StripedScores::<T, U32>::empty();
    s.resize(R, R * 32);
    let spots = [(0usize, 0usize), (0, 30), (R - 1, 17), (R - 1, 31)];
    let mut cell = [[T::bottom(); 32]; R];
    for i in 0..R {
        for j in 0..32 {
            s.matrix_mut()[i][j] = T::bottom();
        }
    }
    for &(i, j) in spots.iter() {
        let x = T::any();
        s.matrix_mut()[i][j] = x;
        cell[i][j] = x;
    }
    let t = T::any();
    nd::assume(t > T::bottom());
    let list: Vec<usize> = s.threshold(t);
    let mut seen = [[0u8; 32]; R];
    for &off in list.iter() {
        assert!(off < R * 32, "listed position outside the scores");
        seen[off % R][off / R] += 1;
    }
    for i in 0..R {
        for j in 0..32 {
            if cell[i][j] >= t {
                assert!(seen[i][j] == 1, "qualifying position not listed exactly once");
            } else {
                assert!(seen[i][j] == 0, "position below the threshold listed");
            }
        }
    }
    crate::witness!(list.len() >= 2 && seen[R - 1][31] == 1, "two qualifying positions");
    core::mem::forget(list);
}

fn generic() -> Pipeline<Dna, Generic> {
    Pipeline::generic()
}
fn sse2() -> Pipeline<Dna, Sse2> {
    Pipeline::default()
}
fn avx2() -> Pipeline<Dna, Avx2> {
    Pipeline::default()
}

// --- empty ------------------------------------------------------------------------
//@ C07 quick 800 max/argmax of an empty f32 matrix, generic+SSE2+AVX2
harness!(avx2, 4, c07_empty_f32, {
    empty_body::<f32, U32, _>(&generic());
    empty_body::<f32, U32, _>(&sse2());
    empty_body::<f32, U32, _>(&avx2());
});
//@ C07 quick 800 max/argmax of an empty u8 matrix, generic+AVX2
harness!(avx2, 4, c07_empty_u8, {
    empty_body::<u8, U32, _>(&generic());
    empty_body::<u8, U32, _>(&avx2());
});

// --- generic ------------------------------------------------------------------------
//@ C07 quick 800 generic max/argmax, f32, 2 rows x 16 columns
harness!(none, 34, c07_generic_f32_r2_c16, max_argmax_body::<f32, U16, _, 2>(&generic()));
//@ C07 thorough 2961 generic max/argmax, f32, 2 rows x 32 columns
harness!(none, 34, c07_generic_f32_r2, max_argmax_body::<f32, U32, _, 2>(&generic()));
//@ C07 quick 800 generic max/argmax, u8, 2 rows x 16 columns
harness!(none, 34, c07_generic_u8_r2_c16, max_argmax_body::<u8, U16, _, 2>(&generic()));

// --- SSE2 ----------------------------------------------------------------------------
//@ C07 quick 800 SSE2 argmax/max, f32, 2 rows x 16 columns
harness!(sse2, 34, c07_sse2_f32_r2_c16, max_argmax_body::<f32, U16, _, 2>(&sse2()));
//@ C07 thorough 2766 SSE2 argmax/max, f32, 2 rows x 32 columns
harness!(sse2, 34, c07_sse2_f32_r2_c32, max_argmax_body::<f32, U32, _, 2>(&sse2()));
//@ C07 thorough 5486 SSE2 argmax/max, f32, 3 rows x 32 columns
harness!(sse2, 34, c07_sse2_f32_r3_c32, max_argmax_body::<f32, U32, _, 3>(&sse2()));

// --- AVX2 ----------------------------------------------------------------------------
//@ C07 quick 800 AVX2 argmax/max, f32, 1 row
harness!(avx2, 34, c07_avx2_f32_r1, max_argmax_body::<f32, U32, _, 1>(&avx2()));
//@ C07 thorough 4897 AVX2 argmax/max, f32, 2 rows
harness!(avx2, 34, c07_avx2_f32_r2, max_argmax_body::<f32, U32, _, 2>(&avx2()));
//@ C07 quick 800 AVX2 argmax/max, u8, 1 row
harness!(avx2, 34, c07_avx2_u8_r1, max_argmax_body::<u8, U32, _, 1>(&avx2()));
//@ C07 quick 800 AVX2 argmax/max, u8, 2 rows
harness!(avx2, 34, c07_avx2_u8_r2, max_argmax_body::<u8, U32, _, 2>(&avx2()));
//@ C07 extended 5400 AVX2 argmax/max, f32, 3 rows
harness!(avx2, 34, c07_avx2_f32_r3, max_argmax_body::<f32, U32, _, 3>(&avx2()));
//@ C07 quick 800 AVX2 argmax/max, u8, 3 rows
harness!(avx2, 34, c07_avx2_u8_r3, max_argmax_body::<u8, U32, _, 3>(&avx2()));
//@ C07 extended 10800 AVX2 argmax/max, f32, 5 rows
harness!(avx2, 34, c07_avx2_f32_r5, max_argmax_body::<f32, U32, _, 5>(&avx2()));
//@ C07 quick 800 AVX2 argmax/max, u8, 5 rows
harness!(avx2, 34, c07_avx2_u8_r5, max_argmax_body::<u8, U32, _, 5>(&avx2()));

// --- dispatcher arms -------------------------------------------------------------------
//@ C07 thorough 6181 StripedScores::{max,argmax} f32 via dispatcher, AVX2 arm, 2 rows
harness!(avx2, 34, c07_dispatch_avx2_f32_r2, dispatch_body::<f32, 2>(Dispatch::Avx2));
//@ C07 quick 800 StripedScores::{max,argmax} f32 via dispatcher, SSE2 arm, 1 row
harness!(avx2, 34, c07_dispatch_sse2_f32_r1, dispatch_body::<f32, 1>(Dispatch::Sse2));
//@ C07 quick 800 StripedScores::{max,argmax} f32 via dispatcher, generic arm, 1 row
harness!(avx2, 34, c07_dispatch_generic_f32_r1, dispatch_body::<f32, 1>(Dispatch::Generic));
//@ C07 extended 5400 StripedScores::{max,argmax} f32 via dispatcher, SSE2 arm, 2 rows
harness!(avx2, 34, c07_dispatch_sse2_f32_r2, dispatch_body::<f32, 2>(Dispatch::Sse2));
//@ C07 thorough 3447 StripedScores::{max,argmax} f32 via dispatcher, generic arm, 2 rows
harness!(avx2, 34, c07_dispatch_generic_f32_r2, dispatch_body::<f32, 2>(Dispatch::Generic));
//@ C07 quick 800 StripedScores::{max,argmax} u8 via dispatcher, AVX2 arm, 2 rows
harness!(avx2, 34, c07_dispatch_avx2_u8_r2, dispatch_body::<u8, 2>(Dispatch::Avx2));
//@ C07 quick 800 StripedScores::{max,argmax} u8 via dispatcher, SSE2 arm (falls to generic), 2 rows
harness!(avx2, 34, c07_dispatch_sse2_u8_r2, dispatch_body::<u8, 2>(Dispatch::Sse2));

// --- threshold ---------------------------------------------------------------------------
//@ C07 quick 800 threshold (default impl, used by every backend), f32, 2 rows x 4 columns, symbolic threshold
harness!(vec, 10, c07_threshold_f32_r2_c4, threshold_body::<f32, U4, _, 2>(&generic()));
//@ C07 quick 800 threshold (default impl), u8, 3 rows x 2 columns
harness!(vec, 10, c07_threshold_u8_r3_c2, threshold_body::<u8, U2, _, 3>(&generic()));
//@ C07 quick 800 StripedScores::threshold via dispatcher (AVX2 arm), f32, 1 row, 4 symbolic cells
harness!(avx2vec8, 34, c07_threshold_dispatch_f32_r1, threshold_dispatch_body::<f32, 1>(Dispatch::Avx2));
//@ C07 quick 800 threshold (default impl), f32, 1 row x 16 columns
harness!(vec, 34, c07_threshold_f32_r1_c16, threshold_body::<f32, U16, _, 1>(&generic()));
//@ C07 quick 800 StripedScores::threshold via dispatcher (generic arm), u8, 2 rows
harness!(avx2vec8, 66, c07_threshold_dispatch_u8_r2, threshold_dispatch_body::<u8, 2>(Dispatch::Generic));
