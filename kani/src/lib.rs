//! Kani harnesses over the working tree of /repo (lightmotif).
//!
//! Conventions
//! * every harness is declared through `harness!(<stubs>, <unwind>, <name>, <body>)`,
//!   preceded by a `//@ <property> <tier> <timeout_s> <description>` line that
//!   `run.py` parses to build its schedule;
//! * all nondeterminism comes from `crate::nd`, so the same body can be replayed
//!   natively from the concrete values of a counterexample;
//! * sizes that drive allocation are concrete (const generics / typenum), contents
//!   are symbolic.
#![allow(clippy::needless_range_loop)]
#![allow(dead_code)]
#![recursion_limit = "1024"]
#![cfg_attr(kani, feature(allocator_api))]

pub mod models;
pub mod nd;
pub mod refs;
pub mod vecstub;

/// Declare one harness instance. `$stubs` is `none`, `sse2` or `avx2` and selects
/// the set of intrinsic models substituted with `#[kani::stub]`.
#[macro_export]
macro_rules! harness {
    (none, $unwind:literal, $name:ident, $body:expr) => {
        #[cfg_attr(kani, kani::proof)]
        #[cfg_attr(kani, kani::unwind($unwind))]
        #[cfg_attr(kani, kani::stub(alloc::fmt::format, $crate::refs::fmt_format_stub))]
        pub fn $name() {
            $body
        }
    };
    (vec, $unwind:literal, $name:ident, $body:expr) => {
        #[cfg_attr(kani, kani::proof)]
        #[cfg_attr(kani, kani::unwind($unwind))]
        #[cfg_attr(kani, kani::stub(alloc::fmt::format, $crate::refs::fmt_format_stub))]
        #[cfg_attr(kani, kani::stub(alloc::vec::Vec::new, $crate::vecstub::vec_new))]
        #[cfg_attr(kani, kani::stub(alloc::vec::Vec::push, $crate::vecstub::vec_push))]
        pub fn $name() {
            $body
        }
    };
    (sse2, $unwind:literal, $name:ident, $body:expr) => {
        #[cfg_attr(kani, kani::proof)]
        #[cfg_attr(kani, kani::unwind($unwind))]
        #[cfg_attr(kani, kani::stub(alloc::fmt::format, $crate::refs::fmt_format_stub))]
        #[cfg_attr(kani, kani::stub(core::arch::x86_64::_mm_add_ps, $crate::models::mm_add_ps))]
        #[cfg_attr(kani, kani::stub(core::arch::x86_64::_mm_cmple_ps, $crate::models::mm_cmple_ps))]
        #[cfg_attr(kani, kani::stub(core::arch::x86_64::_mm_load_si128, $crate::models::mm_load_si128))]
        #[cfg_attr(kani, kani::stub(core::arch::x86_64::_mm_load_ps, $crate::models::mm_load_ps))]
        #[cfg_attr(kani, kani::stub(core::arch::x86_64::_mm_stream_ps, $crate::models::mm_stream_ps))]
        #[cfg_attr(kani, kani::stub(core::arch::x86_64::_mm_sfence, $crate::models::mm_sfence))]
        pub fn $name() {
            $body
        }
    };
    (avx2, $unwind:literal, $name:ident, $body:expr) => {
        $crate::harness_x86!([], $unwind, $name, $body);
    };
    (avx2mem, $unwind:literal, $name:ident, $body:expr) => {
        $crate::harness_x86!(
            [
                kani::stub(core::arch::x86_64::_mm256_unpacklo_epi8, $crate::models::abstract_unpack),
                kani::stub(core::arch::x86_64::_mm256_unpackhi_epi8, $crate::models::abstract_unpack),
                kani::stub(core::arch::x86_64::_mm256_unpacklo_epi16, $crate::models::abstract_unpack),
                kani::stub(core::arch::x86_64::_mm256_unpackhi_epi16, $crate::models::abstract_unpack),
                kani::stub(core::arch::x86_64::_mm256_unpacklo_epi32, $crate::models::abstract_unpack),
                kani::stub(core::arch::x86_64::_mm256_unpackhi_epi32, $crate::models::abstract_unpack),
                kani::stub(core::arch::x86_64::_mm256_unpacklo_epi64, $crate::models::abstract_unpack),
                kani::stub(core::arch::x86_64::_mm256_unpackhi_epi64, $crate::models::abstract_unpack),
                kani::stub(core::arch::x86_64::_mm256_permute2x128_si256, $crate::models::abstract_permute2x128)
            ],
            $unwind,
            $name,
            $body
        );
    };
    (avx2vec8, $unwind:literal, $name:ident, $body:expr) => {
        $crate::harness_x86!(
            [
                kani::stub(alloc::vec::Vec::new, $crate::vecstub::vec_new8),
                kani::stub(alloc::vec::Vec::push, $crate::vecstub::vec_push)
            ],
            $unwind,
            $name,
            $body
        );
    };
    (avx2vec, $unwind:literal, $name:ident, $body:expr) => {
        $crate::harness_x86!(
            [
                kani::stub(alloc::vec::Vec::new, $crate::vecstub::vec_new),
                kani::stub(alloc::vec::Vec::push, $crate::vecstub::vec_push)
            ],
            $unwind,
            $name,
            $body
        );
    };
}

/// Internal: the AVX2 (+SSE2) intrinsic stub set plus optional extra attributes.
#[macro_export]
macro_rules! harness_x86 {
    ([$($extra:meta),*], $unwind:literal, $name:ident, $body:expr) => {
        #[cfg_attr(kani, kani::proof)]
        #[cfg_attr(kani, kani::unwind($unwind))]
        #[cfg_attr(kani, kani::stub(alloc::fmt::format, $crate::refs::fmt_format_stub))]
        $(#[cfg_attr(kani, $extra)])*
        #[cfg_attr(kani, kani::stub(core::arch::x86_64::_mm256_shuffle_epi8, $crate::models::mm256_shuffle_epi8))]
        #[cfg_attr(kani, kani::stub(core::arch::x86_64::_mm256_blendv_epi8, $crate::models::mm256_blendv_epi8))]
        #[cfg_attr(kani, kani::stub(core::arch::x86_64::_mm256_max_epu8, $crate::models::mm256_max_epu8))]
        #[cfg_attr(kani, kani::stub(core::arch::x86_64::_mm256_adds_epu8, $crate::models::mm256_adds_epu8))]
        #[cfg_attr(kani, kani::stub(core::arch::x86_64::_mm256_testz_si256, $crate::models::mm256_testz_si256))]
        #[cfg_attr(kani, kani::stub(core::arch::x86_64::_mm256_cmpgt_epi16, $crate::models::mm256_cmpgt_epi16))]
        #[cfg_attr(kani, kani::stub(core::arch::x86_64::_mm256_sub_epi16, $crate::models::mm256_sub_epi16))]
        #[cfg_attr(kani, kani::stub(core::arch::x86_64::_mm256_blendv_ps, $crate::models::mm256_blendv_ps))]
        #[cfg_attr(kani, kani::stub(core::arch::x86_64::_mm256_permutevar8x32_ps, $crate::models::mm256_permutevar8x32_ps))]
        #[cfg_attr(kani, kani::stub(core::arch::x86_64::_mm256_i32gather_ps, $crate::models::mm256_i32gather_ps))]
        #[cfg_attr(kani, kani::stub(core::arch::x86_64::_mm256_cmp_ps, $crate::models::mm256_cmp_ps))]
        #[cfg_attr(kani, kani::stub(core::arch::x86_64::_mm256_max_ps, $crate::models::mm256_max_ps))]
        #[cfg_attr(kani, kani::stub(core::arch::x86_64::_mm256_add_ps, $crate::models::mm256_add_ps))]
        #[cfg_attr(kani, kani::stub(core::arch::x86_64::_mm256_load_si256, $crate::models::mm256_load_si256))]
        #[cfg_attr(kani, kani::stub(core::arch::x86_64::_mm256_load_ps, $crate::models::mm256_load_ps))]
        #[cfg_attr(kani, kani::stub(core::arch::x86_64::_mm_load_si128, $crate::models::mm_load_si128))]
        #[cfg_attr(kani, kani::stub(core::arch::x86_64::_mm256_stream_ps, $crate::models::mm256_stream_ps))]
        #[cfg_attr(kani, kani::stub(core::arch::x86_64::_mm256_stream_si256, $crate::models::mm256_stream_si256))]
        #[cfg_attr(kani, kani::stub(core::arch::x86_64::_mm_sfence, $crate::models::mm_sfence))]
        #[cfg_attr(kani, kani::stub(core::arch::x86_64::_mm_add_ps, $crate::models::mm_add_ps))]
        #[cfg_attr(kani, kani::stub(core::arch::x86_64::_mm_cmple_ps, $crate::models::mm_cmple_ps))]
        #[cfg_attr(kani, kani::stub(core::arch::x86_64::_mm_load_ps, $crate::models::mm_load_ps))]
        #[cfg_attr(kani, kani::stub(core::arch::x86_64::_mm_stream_ps, $crate::models::mm_stream_ps))]
        pub fn $name() {
            $body
        }
    };
}

pub mod c01_score;
pub mod c02_scanner;
pub mod c04_stripe;
pub mod c05_encode;
pub mod c06_memory;
pub mod c07_max;
pub mod c08_discrete;
pub mod c09_convert;
pub mod c10_revcomp;
pub mod c16_sampler;
pub mod c19_dense;

#[cfg(not(kani))]
pub mod replay_table;
