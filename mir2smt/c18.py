"""C18 — Python indexing and buffer views (Engine M: MIR -> SMT-LIB2, z3 + cvc5).

The MIR of lightmotif-py is dumped from /repo's current tree on every run; the
`__getitem__`, `__len__` and shape/strides constructors are loop-free integer
code and are executed symbolically path by path. Calls into PyO3 and into the
data enums are opaque: size getters become free 64-bit variables, element access
becomes an event carrying the index term, `PyIndexError::new_err` an error tag.

Queries (each is `unsat` when the property holds on that path; all 64-bit values
of the index, sizes bounded as stated):
  getitem  G1  path returns Ok     =>  index is valid and the element accessed is the normalised index
           G2  path returns Err    =>  index is not valid
           G3  no arithmetic-overflow panic path is feasible
  len      L1  returned value == logical length getter
  layout   B1  every element of the view lies inside rows*stride*itemsize bytes (no foreign memory)
           B2  every element of the view is a logical cell, not padding
           B3  (striped classes) view[i][j] is the cell (column i, row j)
           B4  shape[0]*shape[1] == rows*cols
A satisfying assignment is first sought with small sizes so that it can be
replayed against the real extension module through CPython.
"""
import json
import os
import re
import shutil
import subprocess
import sys
import time

HERE = os.path.dirname(os.path.abspath(__file__))
VERIF = os.path.dirname(HERE)
WORK = os.path.join(VERIF, ".work")
REPO = os.path.abspath(os.environ.get("VERIF_REPO", "/repo"))
ALT = "VERIF_REPO" in os.environ
sys.path.insert(0, HERE)
import mir  # noqa: E402
from mir import Executor, Unsupported, bv  # noqa: E402

MIRDIR = os.path.join(WORK, "mir" if "VERIF_REPO" not in os.environ else "mir_alt_" + re.sub(r"\W+", "_", os.environ["VERIF_REPO"]))
ENV = dict(os.environ, CARGO_NET_OFFLINE="true")

SOLVERS = [("z3", ["/usr/bin/z3", "-in", "-T:120"]), ("cvc5", ["/usr/bin/cvc5", "--lang", "smt2", "--tlimit=120000", "--produce-models"])]

stats = dict(queries=0, unsat=0, sat=0, solver_s=0.0, disagreements=0, samples=[])


def dump_mir():
    os.makedirs(MIRDIR, exist_ok=True)
    out = os.path.join(MIRDIR, "py.mir")
    src = os.path.join(REPO, "lightmotif-py", "lightmotif", "lib.rs")
    os.utime(src, None)  # force re-emission (cargo prints nothing on a fresh unit)
    t0 = time.time()
    with open(out, "w") as f, open(os.path.join(MIRDIR, "py.err"), "w") as e:
        rc = subprocess.call(
            [
                "cargo",
                "+nightly",
                "rustc",
                "--offline",
                "-p",
                "lightmotif-py",
                "--lib",
                "--",
                "-Zunpretty=mir",
                "-C",
                "debug-assertions=off",
                "-C",
                "overflow-checks=on",
            ],
            cwd=REPO,
            env=dict(ENV, CARGO_TARGET_DIR=os.path.join(MIRDIR, "target")),
            stdout=f,
            stderr=e,
        )
    if rc != 0 or os.path.getsize(out) < 1000:
        raise Unsupported("MIR dump failed (see %s)" % os.path.join(MIRDIR, "py.err"))
    return out, time.time() - t0


def solve(decls, asserts, want_model=True, extra=None):
    """-> ('sat'|'unsat'|'unknown', model dict). Both solvers must agree."""
    script = "(set-logic ALL)\n(set-option :produce-models true)\n"
    for name in decls:
        script += f"(declare-const {name} (_ BitVec 64))\n"
    if extra:
        script += extra + "\n"
    for a in asserts:
        script += f"(assert {a})\n"
    script += "(check-sat)\n"
    if want_model:
        script += "(get-value (" + " ".join(decls) + "))\n"
    verdicts = []
    model = {}
    for name, cmd in SOLVERS:
        t0 = time.time()
        try:
            p = subprocess.run(cmd, input=script, capture_output=True, text=True, timeout=150)
            out = p.stdout
        except subprocess.TimeoutExpired:
            out = "unknown"
        stats["solver_s"] += time.time() - t0
        if "(error" in out and not out.strip().startswith("unsat"):
            # get-value after unsat legitimately errors; anything else is inconclusive
            if not re.match(r"\s*unsat", out):
                verdicts.append("unknown")
                continue
        first = out.strip().split("\n")[0].strip() if out.strip() else "unknown"
        verdicts.append(first if first in ("sat", "unsat") else "unknown")
        if first == "sat" and not model:
            for m in re.finditer(r"\((\w+) #x([0-9a-fA-F]+)\)", out):
                model[m.group(1)] = int(m.group(2), 16)
            for m in re.finditer(r"\((\w+) #b([01]+)\)", out):
                model[m.group(1)] = int(m.group(2), 2)
    stats["queries"] += 1
    if len(set(verdicts)) != 1:
        stats["disagreements"] += 1
        return "unknown", {}
    v = verdicts[0]
    if v == "unsat":
        stats["unsat"] += 1
    elif v == "sat":
        stats["sat"] += 1
    return v, model


def signed(x):
    return x - (1 << 64) if x >= (1 << 63) else x


class Finding:
    def __init__(self, cls, query, what, model, replayable):
        self.cls, self.query, self.what, self.model, self.replayable = cls, query, what, model, replayable


def query_with_small_first(decls, base, neg, small, extra=None):
    """try to find a small (replayable) counterexample first, then an unrestricted one"""
    v, m = solve(decls, base + [neg] + small, extra=extra)
    if v == "sat":
        return v, m, True
    v2, m2 = solve(decls, base + [neg], extra=extra)
    return v2, m2, False


# -- getitem ------------------------------------------------------------------------

GETITEM = [
    # (class, param regex, length getter regex, accessor regex)
    ("EncodedSequence", r"_1: &EncodedSequence, _2: isize", r"EncodedSequenceData::len", r"EncodedSequenceData::get"),
    ("CountMatrix", r"PyRef<'_, CountMatrix>", r"CountMatrixData::rows", r"CountMatrixData::get"),
    ("WeightMatrix", r"PyRef<'_, WeightMatrix>", r"WeightMatrixData::rows", r"WeightMatrixData::get"),
    ("ScoringMatrix", r"PyRef<'_, ScoringMatrix>", r"ScoringMatrixData::rows", r"ScoringMatrixData::get"),
    ("StripedScores", r"_1: &StripedScores, _2: isize", r"StripedScores::<f32.*::max_index", r"as Index<usize>>::index"),
]


def check_getitem(fns, findings, notes):
    for cls, prx, getter, accessor in GETITEM:
        fn = mir.find_function(fns, r">::__getitem__\(", prx)
        ex = Executor(
            fn,
            getters={getter: "n"},
            accessors={accessor: "access"},
            errors={r"PyIndexError::new_err": "IndexError"},
            symbols={"n": (False, 64), "index": (True, 64)},
        )
        start = mir.Path()
        ex.bind_param(start, "_2", "index")
        ex._dfs(start, "bb0", 0, 64)
        paths = ex.paths
        decls = ["index", "n"]
        # sizes are at most isize::MAX (Vec / allocation limit)
        base0 = ["(bvule n #x3fffffffffffffff)"]
        small = ["(bvule n #x0000000000000006)", "(bvsle index #x0000000000000008)", "(bvsge index #xfffffffffffffff8)"]
        j = "(ite (bvslt index #x0000000000000000) (bvadd index n) index)"
        valid = f"(and (bvsge {j} #x0000000000000000) (bvslt {j} n))"
        npaths = 0
        for p in paths:
            npaths += 1
            base = base0 + p.conds
            kind = p.outcome[0]
            ret = p.outcome[1]
            if kind == "panic":
                v, m, small_ok = query_with_small_first(decls, base, "true", small)
                if v == "sat":
                    findings.append(Finding(cls, "G3", f"{cls}.__getitem__ panics (arithmetic overflow)", m, small_ok))
                elif v != "unsat":
                    notes.append(f"{cls} G3 inconclusive")
                continue
            if ret is None or ret.kind != "agg":
                raise Unsupported(f"{cls}: unexpected return value {ret}")
            if ret.name == "Ok":
                acc = [e for e in p.events if e[0] == "access"]
                if len(acc) != 1:
                    raise Unsupported(f"{cls}: Ok path with {len(acc)} element accesses")
                idx = acc[0][1][-1]
                if idx.kind != "bv":
                    raise Unsupported(f"{cls}: access index is not an integer")
                neg = f"(not (and {valid} (= {idx.term} {j})))"
                v, m, small_ok = query_with_small_first(decls, base, neg, small)
                if v == "sat":
                    findings.append(
                        Finding(cls, "G1", f"{cls}.__getitem__ returns an element for an index that is invalid or reads the wrong element", m, small_ok)
                    )
                elif v != "unsat":
                    notes.append(f"{cls} G1 inconclusive")
            elif ret.name == "Err":
                v, m, small_ok = query_with_small_first(decls, base, valid, small)
                if v == "sat":
                    findings.append(Finding(cls, "G2", f"{cls}.__getitem__ raises IndexError for a valid index", m, small_ok))
                elif v != "unsat":
                    notes.append(f"{cls} G2 inconclusive")
            else:
                raise Unsupported(f"{cls}: unexpected aggregate {ret.name}")
        stats["samples"].append(dict(function=f"{cls}.__getitem__", paths=npaths, basic_blocks=len(fn.blocks), opaque_calls=sorted(set(sum((p.opaque_calls for p in paths), [])))[:6]))


LEN = [
    ("EncodedSequence", r"_1: &EncodedSequence\)", r"EncodedSequenceData::len"),
    ("CountMatrix", r"_1: &CountMatrix\)", r"CountMatrixData::rows"),
    ("WeightMatrix", r"_1: &WeightMatrix\)", r"WeightMatrixData::rows"),
    ("ScoringMatrix", r"_1: &ScoringMatrix\)", r"ScoringMatrixData::rows"),
    ("StripedScores", r"_1: &StripedScores\)", r"StripedScores::<f32.*::max_index"),
]


def check_len(fns, findings, notes):
    for cls, prx, getter in LEN:
        fn = mir.find_function(fns, r">::__len__\(", prx)
        ex = Executor(fn, getters={getter: "n"}, accessors={}, errors={}, symbols={"n": (False, 64)})
        ex._dfs(mir.Path(), "bb0", 0, 8)
        for p in ex.paths:
            ret = p.outcome[1]
            if p.outcome[0] != "return" or ret is None or ret.kind != "bv":
                findings.append(Finding(cls, "L1", f"{cls}.__len__ does not return the logical length getter", {}, True))
                continue
            v, m = solve(["n"], p.conds + [f"(not (= {ret.term} n))"])
            if v == "sat":
                findings.append(Finding(cls, "L1", f"{cls}.__len__ differs from the logical length", m, False))
            elif v != "unsat":
                notes.append(f"{cls} L1 inconclusive")
        stats["samples"].append(dict(function=f"{cls}.__len__", paths=len(ex.paths)))


LAYOUT = [
    # class, name regex, param regex, itemsize, striped (column-major view of (col,row)), getters,
    # (cols, stride) instantiations present in the binding: lanes = 32, K = 5 (DNA) / 21 (protein);
    # stride = row size of DenseMatrix<T, cols> in elements (32-byte aligned rows, C19)
    ("StripedSequence", r">::from\(", r"_1: StripedSequenceData\) -> StripedSequence", 1, True,
     {r"StripedSequenceData::columns": "cols", r"StripedSequenceData::rows": "rows", r"StripedSequenceData::stride": "stride"},
     [(32, 32)]),
    ("ScoringMatrix", r">::new\(", r"\) -> ScoringMatrix \{", 4, False,
     {r"ScoringMatrixData::columns": "cols", r"ScoringMatrixData::rows": "rows", r"ScoringMatrixData::stride": "stride"},
     [(5, 8), (21, 24)]),
    ("StripedScores", r">::from\(", r"_1: lightmotif::scores::StripedScores<f32.*\) -> StripedScores", 4, True,
     {r"DenseMatrix::<f32.*::columns": "cols", r"DenseMatrix::<f32.*::rows": "rows", r"DenseMatrix::<f32.*::stride": "stride"},
     [(32, 32)]),
]


STRUCT_FIELDS = {}  # class -> (field index of `shape`, of `strides`), read off the constructor's aggregate


def check_layout(fns, findings, notes):
    for cls, nrx, prx, size, striped, getters, insts in [(a, b, c, d, e, f, g) for (a, b, c, d, e, f, gs) in LAYOUT for g in gs]:
        fn = mir.find_function(fns, nrx, prx)
        ex = Executor(fn, getters=getters, accessors={}, errors={}, symbols={k: (False, 64) for k in ("cols", "rows", "stride")})
        ex._dfs(mir.Path(), "bb0", 0, 16)
        decls = ["cols", "rows", "stride", "i", "j"]
        # DenseMatrix facts (C19): cols <= stride, stride*itemsize is a multiple of 32; sizes bounded so
        # that no product below wraps (stated bound: rows < 2^32, stride < 2^16)
        base0 = [
            f"(= cols {bv(insts[0])})",
            f"(= stride {bv(insts[1])})",
            "(bvule rows #x00000000ffffffff)",
        ]
        small = ["(bvule rows #x0000000000000003)"]
        for p in ex.paths:
            if p.outcome[0] == "panic":
                v, m, ok = query_with_small_first(decls, base0 + p.conds, "true", small)
                if v == "sat":
                    findings.append(Finding(cls, "B0", f"{cls} layout computation panics", m, ok))
                elif v != "unsat":
                    notes.append(f"{cls} B0 inconclusive")
                continue
            ret = p.outcome[1]
            if ret is None or ret.kind != "agg" or "shape" not in ret.fields or "strides" not in ret.fields:
                raise Unsupported(f"{cls}: constructor does not return shape/strides")
            names = list(ret.fields.keys())
            STRUCT_FIELDS[cls] = (names.index("shape"), names.index("strides"))
            sh, st = ret.fields["shape"], ret.fields["strides"]
            if sh.kind != "tuple" or st.kind != "tuple":
                raise Unsupported(f"{cls}: shape/strides are not arrays")
            s0, s1 = sh.items[0].term, sh.items[1].term
            t0, t1 = st.items[0].term, st.items[1].term
            base = base0 + p.conds + [f"(bvult i {s0})", f"(bvult j {s1})"]
            off = f"(bvadd (bvmul i {t0}) (bvmul j {t1}))"
            rowbytes = f"(bvmul stride {bv(size)})"
            total = f"(bvmul rows {rowbytes})"
            qs = [
                ("B1", f"(not (bvule (bvadd {off} {bv(size)}) {total}))", "exposes memory outside the matrix"),
                ("B2", f"(not (and (= (bvurem {off} {bv(size)}) #x0000000000000000) (bvult (bvudiv (bvurem {off} {rowbytes}) {bv(size)}) cols)))", "exposes padding"),
            ]
            if striped:
                want = f"(bvadd (bvmul j {rowbytes}) (bvmul i {bv(size)}))"
                qs.append(("B3", f"(not (= {off} {want}))", "view[i][j] is not the cell (column i, row j)"))
            for name, neg, what in qs:
                v, m, ok = query_with_small_first(decls, base, neg, small)
                if v == "sat":
                    findings.append(Finding(cls, name, f"memoryview of {cls} {what}", dict(m, shape=[s0, s1], strides=[t0, t1]), ok))
                elif v != "unsat":
                    notes.append(f"{cls} {name} inconclusive")
            v, m, ok = query_with_small_first(decls[:3], base0 + p.conds, f"(not (= (bvmul {s0} {s1}) (bvmul rows cols)))", small)
            if v == "sat":
                findings.append(Finding(cls, "B4", f"memoryview of {cls} does not have rows*cols elements", m, ok))
            elif v != "unsat":
                notes.append(f"{cls} B4 inconclusive")
        stats["samples"].append(dict(function=f"{cls} shape/strides constructor", cols=insts[0], stride=insts[1], paths=len(ex.paths), basic_blocks=len(fn.blocks)))


GETBUFFER = [
    # class, param regex, ndim, itemsize, getters, shape/strides field indices of the Rust struct (or None)
    ("EncodedSequence", r"PyRef<'_, EncodedSequence>, _2: \*mut Py_buffer", 1, 1, {r"EncodedSequenceData::len": "n"}, None),
    ("StripedSequence", r"PyRefMut<'_, StripedSequence>, _2: \*mut Py_buffer", 2, 1,
     {r"StripedSequenceData::rows": "mrows", r"StripedSequenceData::columns": "cols", r"StripedSequenceData::stride": "stride"}, (1, 2)),
    ("ScoringMatrix", r"PyRefMut<'_, ScoringMatrix>, _2: \*mut Py_buffer", 2, 4,
     {r"ScoringMatrixData::rows": "mrows", r"ScoringMatrixData::columns": "cols", r"ScoringMatrixData::stride": "stride"}, (1, 2)),
    ("StripedScores", r"PyRefMut<'_, StripedScores>, _2: \*mut Py_buffer", 2, 4,
     {r"DenseMatrix::<f32.*::rows": "mrows", r"DenseMatrix::<f32.*::columns": "cols", r"DenseMatrix::<f32.*::stride": "stride"}, (1, 2)),
]


def check_getbuffer(fns, findings, notes):
    """__getbuffer__ bodies: the exported itemsize / ndim / readonly, the exported shape and
    strides pointers (must be the fields filled by the constructor, not rewritten here from
    a row count that includes look-ahead rows), and panic-freedom (indexing an empty matrix)."""
    for cls, prx, ndim, size, getters, fields in GETBUFFER:
        fn = mir.find_function(fns, r">::__getbuffer__\(", prx)
        syms = {k: (False, 64) for k in ("n", "mrows", "cols", "stride", "wrap")}
        syms["flags"] = (True, 32)
        ex = Executor(fn, getters=getters, accessors={r"as Index<usize>>::index": "row_index"},
                      errors={r"PyBufferError::new_err": "BufferError"}, symbols=syms)
        start = mir.Path()
        ex.bind_param(start, "_3", "flags")
        ex._dfs(start, "bb0", 0, 64)
        decls64 = ["n", "mrows", "cols", "stride", "wrap"]
        base0 = ["(bvule mrows #x00000000ffffffff)", "(bvule wrap mrows)", "(bvule cols #x0000000000000040)", "(bvule stride #x0000000000000040)", "(bvule n #x3fffffffffffffff)"]
        small = ["(bvule mrows #x0000000000000004)", "(bvule n #x0000000000000004)"]
        extra_decl = "(declare-const flags (_ BitVec 32))"

        for p in ex.paths:
            conds = p.conds
            if p.outcome[0] == "panic":
                v, m, ok = query_with_small_first(decls64, base0 + conds, "true", small, extra=extra_decl)
                if v == "sat":
                    findings.append(Finding(cls, "V0", f"memoryview({cls}) panics (arithmetic overflow)", m, ok))
                elif v != "unsat":
                    notes.append(f"{cls} V0 inconclusive")
                continue
            ret = p.outcome[1]
            if ret is None or ret.kind != "agg":
                raise Unsupported(f"{cls}.__getbuffer__: unexpected return")
            # element access with a bounds obligation (e.g. matrix()[0] of an empty matrix)
            for ev in p.events:
                if ev[0] == "row_index":
                    idx = ev[1][-1]
                    if idx.kind != "bv":
                        raise Unsupported("row index is not an integer")
                    v, m, ok = query_with_small_first(decls64, base0 + conds, f"(not (bvult {idx.term} mrows))", small, extra=extra_decl)
                    if v == "sat":
                        findings.append(Finding(cls, "V3", f"memoryview({cls}) indexes row {idx.term} of a matrix that may have no rows (panic)", m, ok))
                    elif v != "unsat":
                        notes.append(f"{cls} V3 inconclusive")
            if ret.name != "Ok":
                continue
            stores = {}
            self_stores = []
            for ev in p.events:
                if ev[0] == "store":
                    base, field, val = ev[1]
                    if base == "_2":
                        stores[field] = val
                    else:
                        self_stores.append((base, field, val))
            def const_of(v):
                return v.term if v is not None and v.kind == "bv" else None
            want = {3: bv(size, 64), 5: bv(ndim, 32), 4: bv(1, 32)}
            names = {3: "itemsize", 5: "ndim", 4: "readonly"}
            for fld, term in want.items():
                got = const_of(stores.get(fld))
                if got is None:
                    findings.append(Finding(cls, "V1", f"memoryview({cls}) does not set {names[fld]}", {}, False))
                    continue
                v, m = solve(decls64, base0 + conds + [f"(not (= {got} {term}))"], extra=extra_decl)
                if v == "sat":
                    findings.append(Finding(cls, "V1", f"memoryview({cls}) exports a wrong {names[fld]}", m, True))
                elif v != "unsat":
                    notes.append(f"{cls} V1 inconclusive")
            if fields is not None:
                fields = STRUCT_FIELDS.get(cls, fields)
                for fld, idx, nm in ((7, fields[0], "shape"), (8, fields[1], "strides")):
                    v = stores.get(fld)
                    tag = v.tag if v is not None and v.kind == "opaque" else ""
                    if not re.search(r"\)\.%d: \[isize; 2\]" % idx, tag):
                        findings.append(Finding(cls, "V2", f"memoryview({cls}) exports a {nm} pointer that is not the field filled by the constructor", {}, False))
                # the shape / strides fields must not be rewritten from sizes that include look-ahead rows
                for base, field, val in self_stores:
                    if field not in fields or val.kind != "tuple":
                        continue
                    if field == fields[0]:
                        s0, s1 = val.items[0].term, val.items[1].term
                        neg = f"(not (or (and (= {s0} cols) (= {s1} (bvsub mrows wrap))) (and (= {s1} cols) (= {s0} (bvsub mrows wrap)))))"
                        v, m, ok = query_with_small_first(decls64, base0 + conds + ["(bvuge mrows #x0000000000000001)"], neg, small, extra=extra_decl)
                        if v == "sat":
                            findings.append(Finding(cls, "V2", f"memoryview({cls}) rewrites its shape from a row count that includes look-ahead rows", m, ok))
                        elif v != "unsat":
                            notes.append(f"{cls} V2 inconclusive")
        stats["samples"].append(dict(function=f"{cls}.__getbuffer__", paths=len(ex.paths), basic_blocks=len(fn.blocks)))


def check_helpers(fns, findings, notes):
    """`*Data::as_ptr` helpers used by __getbuffer__: no indexing of a possibly empty matrix."""
    for cls, prx in (("StripedSequence", r">::as_ptr\(_1: &StripedSequenceData\)"),
                     ("ScoringMatrix", r">::as_ptr\(_1: &ScoringMatrixData\)")):
        fn = mir.find_function(fns, prx, None)
        ex = Executor(fn, getters={r"DenseMatrix::<.*::rows": "mrows"}, accessors={r"as Index<usize>>::index": "row_index"},
                      errors={}, symbols={"mrows": (False, 64)})
        ex._dfs(mir.Path(), "bb0", 0, 64)
        for p in ex.paths:
            for ev in p.events:
                if ev[0] == "row_index":
                    idx = ev[1][-1]
                    v, m = solve(["mrows"], p.conds + ["(bvule mrows #x0000000000000004)", f"(not (bvult {idx.term} mrows))"])
                    if v == "sat":
                        findings.append(Finding(cls, "V3", f"memoryview({cls}) indexes a row of a matrix that may have no rows (panic)", dict(m, rows=0), True))
                    elif v != "unsat":
                        notes.append(f"{cls} V3 inconclusive")
        stats["samples"].append(dict(function=f"{cls}Data::as_ptr", paths=len(ex.paths)))


# -- replay through CPython ------------------------------------------------------------------

REPLAY_PY = r'''
import sys, json
sys.path.insert(0, sys.argv[1])
import lightmotif
from lightmotif import lib
rec = json.load(open(sys.argv[2]))
cls, q, m = rec["cls"], rec["query"], rec["model"]
def s64(x): return x - (1 << 64) if x >= (1 << 63) else x
def make(cls, n):
    n = max(n, 0)
    if cls == "EncodedSequence":
        return lib.EncodedSequence("A" * n)
    motif = lightmotif.create(["ACGT"[k % 4] * 1 * max(n, 1) for k in range(2)]) if n > 0 else None
    if motif is None:
        raise SystemExit(5)
    if cls == "CountMatrix": return motif.counts
    pwm = motif.counts.normalize(0.1)
    if cls == "WeightMatrix": return pwm
    pssm = pwm.log_odds()
    if cls == "ScoringMatrix": return pssm
    if cls == "StripedScores":
        seq = lightmotif.stripe("ACGT" * 16)
        one = lightmotif.create(["A" * (64 - n + 1)]).counts.normalize(0.1).log_odds() if n <= 64 else None
        return one.calculate(seq)
    raise SystemExit(5)
if q in ("G1", "G2", "G3"):
    n, index = m["n"], s64(m["index"])
    obj = make(cls, n)
    assert len(obj) == n, (len(obj), n)
    ref = list(range(n))
    try:
        want = ref[index]; ok = True
    except IndexError:
        ok = False
    try:
        got = obj[index]
        if not ok:
            print("REPRODUCED: element returned for an invalid index"); sys.exit(101)
        # compare with the element at the normalised index
        exp = obj[want]
        same = (list(got) == list(exp)) if hasattr(got, "__iter__") else (got == exp)
        if not same:
            print("REPRODUCED: wrong element"); sys.exit(101)
        print("not reproduced"); sys.exit(0)
    except IndexError:
        if ok:
            print("REPRODUCED: IndexError for a valid index"); sys.exit(101)
        print("not reproduced"); sys.exit(0)
    except BaseException as e:
        print("REPRODUCED: %s: %s" % (type(e).__name__, str(e)[:100])); sys.exit(101)
if q in ("V2", "V3", "V0", "V1"):
    try:
        if cls == "StripedSequence" and q == "V3":
            mv = memoryview(lightmotif.stripe("")); _ = mv.shape
        elif cls == "StripedSequence":
            seq = lightmotif.stripe("ACGT" * 10)
            before = memoryview(seq).shape
            pssm = lightmotif.create(["ACG", "ACT"]).counts.normalize(0.1).log_odds()
            pssm.calculate(seq)
            after = memoryview(seq).shape
            rows = (40 + 31) // 32
            if tuple(after) != (32, rows) or tuple(before) != (32, rows):
                print("REPRODUCED: memoryview shape %s -> %s after scoring, logical shape (32, %d)" % (before, after, rows)); sys.exit(101)
        elif cls == "StripedScores":
            pssm = lightmotif.create(["ACG", "ACT"]).counts.normalize(0.1).log_odds()
            seq = lightmotif.stripe("A" * max(0, min(m.get("mrows", 0), 2)))
            scores = pssm.calculate(seq)
            mv = memoryview(scores)
            _ = mv.shape
        elif cls == "ScoringMatrix":
            mv = memoryview(make(cls, 3)); _ = mv.shape
        else:
            mv = memoryview(make(cls, 3)); _ = mv.shape
        print("not reproduced"); sys.exit(0)
    except BaseException as e:
        if isinstance(e, SystemExit):
            raise
        print("REPRODUCED: %s: %s" % (type(e).__name__, str(e)[:100])); sys.exit(101)
if q.startswith("B"):
    rows = m.get("rows", 1)
    if cls == "ScoringMatrix":
        obj = make(cls, rows); cols, item = 5, 4; real_rows = len(obj)
    elif cls == "StripedSequence":
        obj = lightmotif.stripe("ACGT" * 8 * max(rows, 1)); cols, item = 32, 1; real_rows = None
    else:
        sys.exit(5)
    mv = memoryview(obj)
    shape, strides = mv.shape, mv.strides
    if real_rows is None:
        real_rows = shape[1]
    rowbytes = ((cols * item + 31) // 32) * 32
    for i in range(shape[0]):
        for j in range(shape[1]):
            off = i * strides[0] + j * strides[1]
            if off + item > real_rows * rowbytes or (off % rowbytes) // item >= cols:
                print("REPRODUCED: view%s strides%s element [%d][%d] at byte %d lies outside the %d x %d cells" % (shape, strides, i, j, off, real_rows, cols)); sys.exit(101)
    print("not reproduced"); sys.exit(0)
sys.exit(5)
'''


def build_pymod():
    logp = os.path.join(WORK, "logs", "pymod_build.log")
    os.makedirs(os.path.dirname(logp), exist_ok=True)
    tdir = os.path.join(MIRDIR, "target_py")
    with open(logp, "w") as f:
        rc = subprocess.call(["cargo", "build", "--offline", "-p", "lightmotif-py"], cwd=REPO, env=dict(ENV, CARGO_TARGET_DIR=tdir), stdout=f, stderr=subprocess.STDOUT)
    so = os.path.join(tdir, "debug", "liblightmotif_py.so")
    if rc != 0 or not os.path.exists(so):
        return None
    pkg = os.path.join(MIRDIR, "pymod", "lightmotif")
    os.makedirs(pkg, exist_ok=True)
    shutil.copy(so, os.path.join(pkg, "lib.so"))
    shutil.copy(os.path.join(REPO, "lightmotif-py", "lightmotif", "__init__.py"), os.path.join(pkg, "__init__.py"))
    return os.path.dirname(pkg)


def replay(f, moddir, k):
    rdir = os.path.join(WORK, "replays")
    os.makedirs(rdir, exist_ok=True)
    rpath = os.path.join(rdir, f"c18_{f.cls}_{f.query}.json")
    json.dump(dict(cls=f.cls, query=f.query, what=f.what, model={k2: v for k2, v in f.model.items() if isinstance(v, int)}), open(rpath, "w"), indent=1)
    script = os.path.join(rdir, "c18_replay.py")
    open(script, "w").write(REPLAY_PY)
    p = subprocess.run([sys.executable, script, moddir, rpath], capture_output=True, text=True, timeout=120)
    return rpath, p.returncode, (p.stdout + p.stderr)[-300:]


def load_known():
    out = []
    p = os.path.join(VERIF, "known_findings.txt")
    if os.path.exists(p):
        for ln in open(p):
            m = re.match(r"finding:\s*property=C18\s+key=(\S+)\s+(.*)$", ln.strip())
            if m:
                out.append((m.group(1), m.group(2)))
    return out


def main(tier, seed):
    t0 = time.time()
    findings, notes = [], []
    inconclusive = None
    try:
        path, dump_s = dump_mir()
        fns = mir.load_functions(path)
        check_getitem(fns, findings, notes)
        check_len(fns, findings, notes)
        check_layout(fns, findings, notes)
        check_getbuffer(fns, findings, notes)
        check_helpers(fns, findings, notes)
    except Unsupported as e:
        inconclusive = f"encoder: {e}"
        dump_s = 0
    known = load_known()
    viol, known_lines, unrepro = [], [], []
    if findings and not inconclusive:
        moddir = build_pymod()
        for k, f in enumerate(findings):
            key = f"{f.cls}.{f.query}"
            if not f.replayable or moddir is None:
                unrepro.append((f, "no small counterexample / extension module not built"))
                continue
            rpath, rc, out = replay(f, moddir, k)
            stats["replayed"] = stats.get("replayed", 0) + 1
            if rc == 101:
                kf = [x for x in known if x[0] == key]
                if kf:
                    known_lines.append(f"KNOWN-FINDING: property=C18 {kf[0][1]} ({key}: {out.strip().splitlines()[-1] if out.strip() else ''})")
                else:
                    viol.append((f, rpath, out))
            else:
                unrepro.append((f, f"replay exit {rc}: {out.strip()[-120:]}"))
    stats["blocks"], stats["edges"] = mir.COUNTERS["blocks"], mir.COUNTERS["edges"]
    wall = time.time() - t0
    ev = dict(
        property_id="C18",
        tier=tier,
        seed=seed,
        level="model_checking",
        coverage=dict(
            # model-checking vocabulary: a state is a MIR basic block reached on a symbolic path, a
            # transition an edge between two such blocks (both counted by the symbolic executor)
            states=max(1, stats.get("blocks", 0)),
            transitions=max(1, stats.get("edges", 0)),
            traces_validated_against_impl=stats.get("replayed", 0),
            evaluations=stats["queries"],
            distinct_nontrivial=stats["unsat"] + stats["sat"],
            rule="one evaluation = one SMT query (QF_BV, 64-bit) generated from the MIR of the current tree for one path of one function and one property clause, answered identically by z3 4.8.12 and cvc5 1.0; non-trivial = both solvers returned a definite sat/unsat",
            samples=stats["samples"],
            obligations=stats["queries"],
            discharged=stats["unsat"],
            solver_time_s=round(stats["solver_s"], 2),
            solver_disagreements=stats["disagreements"],
            mir_dump_s=round(dump_s, 1),
            functions_encoded=[s["function"] for s in stats["samples"]],
            bounds="all 64-bit index values; lengths <= 2^62; layout: rows < 2^32 symbolic, (cols, stride) enumerated over the instantiations of the binding (32,32), (5,8), (21,24); loop-free bodies only",
            exhaustive=False,
            explanation="symbolic execution of the MIR of lightmotif-py's __getitem__/__len__/shape-strides constructors; opaque PyO3 calls; CPython's own memoryview machinery and __getbuffer__ pointer plumbing are trusted",
        ),
        assumptions=[
            "size getters (rows/len/max_index/columns/stride) are pure and return the logical sizes (C19 for DenseMatrix)",
            "PyO3 argument conversion and CPython's Py_buffer consumers are trusted",
            "__getbuffer__ itself (raw pointer writes of itemsize/format/ndim) is not encoded",
        ],
        wall_s=round(wall, 1),
        violations=len(viol),
    )
    evdir = os.path.join(VERIF, "evidence") if not ALT else os.path.join(MIRDIR, "evidence")
    os.makedirs(evdir, exist_ok=True)
    json.dump(ev, open(os.path.join(evdir, "C18.json"), "w"), indent=1)
    for ln in known_lines:
        print(ln)
    for f, rpath, out in viol:
        print(f"VIOLATION property=C18 replay={rpath}")
        print(f"  {f.cls} {f.query}: {f.what}; model={ {k: (signed(v) if isinstance(v, int) else v) for k, v in f.model.items()} }")
    for f, why in unrepro:
        print(f"INCONCLUSIVE property=C18 {f.cls} {f.query}: {f.what} [{why}]")
    for n in notes:
        print(f"INCONCLUSIVE property=C18 {n}")
    if inconclusive:
        print(f"INCONCLUSIVE property=C18 {inconclusive}")
    print(f"[C18/{tier}] queries={stats['queries']} unsat={stats['unsat']} sat={stats['sat']} disagreements={stats['disagreements']} findings={len(findings)} wall={wall:.0f}s")
    if viol:
        return 1
    if unrepro or notes or inconclusive or stats["disagreements"]:
        return 2
    return 0


if __name__ == "__main__":
    sys.exit(main(sys.argv[1] if len(sys.argv) > 1 else "quick", int(os.environ.get("VERIF_SEED", "0"))))
