"""Engine M — symbolic execution of loop-free MIR bodies into SMT-LIB2 bit-vector terms.

Input is the text produced by `rustc -Zunpretty=mir` for the *current* tree. Only
the constructs that occur in the functions this engine is pointed at are handled;
anything else raises `Unsupported`, which makes the check inconclusive (never a
pass). Integers are 64-bit bit-vectors (isize / usize / Py_ssize_t on x86-64);
signedness comes from the declared type of the operand.
"""
import re


class Unsupported(Exception):
    pass


COUNTERS = {"blocks": 0, "edges": 0}


W = 64


def bv(n, w=W):
    return f"(_ bv{n % (1 << w)} {w})"


class Val:
    """kind: 'bv' (term, signed, width), 'bool' (term), 'tuple' (items), 'agg' (name, fields),
    'opaque' (tag)"""

    def __init__(self, kind, **kw):
        self.kind = kind
        self.__dict__.update(kw)

    def __repr__(self):
        return f"Val({self.kind}, {self.__dict__})"


def opaque(tag):
    return Val("opaque", tag=tag)


INT_TYPES = {
    "isize": (True, 64),
    "usize": (False, 64),
    "i64": (True, 64),
    "u64": (False, 64),
    "i32": (True, 32),
    "u32": (False, 32),
    "u8": (False, 8),
    "i8": (True, 8),
    "u16": (False, 16),
    "i16": (True, 16),
}

KNOWN_CONSTS = {"const pyo3::ffi::PyBUF_WRITABLE": (1, "i32")}

SIZE_OF = {"u8": 1, "f32": 4, "u32": 4, "lightmotif::abc::Nucleotide": 1, "Nucleotide": 1, "f64": 8}


class Function:
    def __init__(self, header, body_lines):
        self.header = header
        self.locals = {}
        self.blocks = {}
        self.parse(body_lines)

    def parse(self, lines):
        m = re.match(r"fn (.*?)\((.*)\) -> (.*) \{$", self.header)
        if not m:
            m = re.match(r"fn (.*?)\((.*)\) \{$", self.header)
            if not m:
                raise Unsupported("header: " + self.header)
        self.name = m.group(1)
        params = m.group(2)
        for pm in re.finditer(r"(_\d+): ((?:[^,<>()]|<[^<>]*(?:<[^<>]*(?:<[^<>]*>)*[^<>]*>)*[^<>]*>|\([^()]*\))+)", params):
            self.locals[pm.group(1)] = pm.group(2).strip()
        self.params = params
        cur = None
        for ln in lines:
            s = ln.strip()
            lm = re.match(r"let (?:mut )?(_\d+): (.*);$", s)
            if lm:
                self.locals[lm.group(1)] = lm.group(2)
                continue
            bm = re.match(r"(bb\d+)( \(cleanup\))?: \{$", s)
            if bm:
                cur = bm.group(1)
                self.blocks[cur] = []
                continue
            if s == "}":
                cur = None
                continue
            if cur is not None and s:
                self.blocks[cur].append(s)


def load_functions(path):
    """-> list of Function for every top-level `fn` in the MIR dump"""
    fns = []
    lines = open(path, errors="replace").read().split("\n")
    i = 0
    while i < len(lines):
        if lines[i].startswith("fn "):
            header = lines[i]
            j = i + 1
            depth = 1
            while j < len(lines) and depth > 0:
                if lines[j].startswith("}"):
                    depth = 0
                    break
                j += 1
            fns.append((header, lines[i + 1 : j]))
            i = j
        i += 1
    return fns


def find_function(fns, name_re, param_re=None, ret_re=None):
    hits = []
    for header, body in fns:
        if re.search(name_re, header) and (param_re is None or re.search(param_re, header)):
            if ret_re is None or re.search(ret_re, header.split(" -> ")[-1] if " -> " in header else ""):
                hits.append((header, body))
    if len(hits) != 1:
        raise Unsupported(f"expected exactly one function matching {name_re}/{param_re}, found {len(hits)}")
    return Function(*hits[0])


class Path:
    def __init__(self):
        self.env = {}
        self.conds = []  # SMT bool terms
        self.events = []  # (kind, payload)
        self.outcome = None
        self.opaque_calls = []
        self.trace = []

    def clone(self):
        p = Path()
        p.env = dict(self.env)
        p.conds = list(self.conds)
        p.events = list(self.events)
        p.opaque_calls = list(self.opaque_calls)
        p.trace = list(self.trace)
        return p


class Executor:
    """`getters`: regex -> symbol name for pure size getters; `accessors`: regex -> event name"""

    def __init__(self, fn, getters, accessors, errors, symbols):
        self.fn = fn
        self.getters = getters
        self.accessors = accessors
        self.errors = errors
        self.symbols = symbols  # name -> (signed, width) declared free variables
        self.paths = []

    # -- operands ---------------------------------------------------------------
    def type_of(self, local):
        return self.fn.locals.get(local, "?")

    def int_type(self, ty):
        ty = ty.strip()
        if ty in INT_TYPES:
            return INT_TYPES[ty]
        return None

    def place(self, p, text):
        text = text.strip()
        m = re.match(r"\((_\d+)\.(\d+): [^)]*\)$", text)
        if m:
            base = p.env.get(m.group(1))
            if base is None:
                raise Unsupported("unset local " + text)
            if base.kind == "tuple":
                return base.items[int(m.group(2))]
            if base.kind == "opaque":
                return opaque(base.tag + "." + m.group(2))
            raise Unsupported("projection of " + repr(base))
        if re.match(r"_\d+$", text):
            v = p.env.get(text)
            if v is None:
                return opaque("uninit:" + text)
            return v
        if text.startswith("(*") or text.startswith("*"):
            return opaque("deref:" + text)
        raise Unsupported("place: " + text)

    def operand(self, p, text):
        text = text.strip()
        m = re.match(r"(copy|move) (.*)$", text)
        if m:
            return self.place(p, m.group(2))
        m = re.match(r"const (-?\d+)_(\w+)$", text)
        if m:
            it = self.int_type(m.group(2))
            if it is None:
                raise Unsupported("const type " + text)
            return Val("bv", term=bv(int(m.group(1)), it[1]), signed=it[0], width=it[1])
        m = re.match(r"const (true|false)$", text)
        if m:
            return Val("bool", term=m.group(1))
        if text in KNOWN_CONSTS:
            v, ty = KNOWN_CONSTS[text]
            it = INT_TYPES[ty]
            return Val("bv", term=bv(v, it[1]), signed=it[0], width=it[1])
        if text.startswith("const "):
            return opaque(text)
        raise Unsupported("operand: " + text)

    # -- statements -------------------------------------------------------------
    def rvalue(self, p, dst, text):
        text = text.strip()
        m = re.match(r"(Lt|Le|Gt|Ge|Eq|Ne)\((.*), (.*)\)$", text)
        if m:
            a, b = self.operand(p, m.group(2)), self.operand(p, m.group(3))
            if a.kind != "bv" or b.kind != "bv":
                raise Unsupported("comparison of non-integers: " + text)
            op = m.group(1)
            if op == "Eq":
                t = f"(= {a.term} {b.term})"
            elif op == "Ne":
                t = f"(not (= {a.term} {b.term}))"
            else:
                base = {"Lt": "lt", "Le": "le", "Gt": "gt", "Ge": "ge"}[op]
                t = f"(bv{'s' if a.signed else 'u'}{base} {a.term} {b.term})"
            return Val("bool", term=t)
        m = re.match(r"(Add|Sub|Mul)WithOverflow\((.*), (.*)\)$", text)
        if m:
            a, b = self.operand(p, m.group(2)), self.operand(p, m.group(3))
            if a.kind != "bv" or b.kind != "bv":
                raise Unsupported("arith of non-integers: " + text)
            op = {"Add": "bvadd", "Sub": "bvsub", "Mul": "bvmul"}[m.group(1)]
            w = a.width
            res = f"({op} {a.term} {b.term})"
            # overflow flag computed in 2w bits
            ext = "sign_extend" if a.signed else "zero_extend"
            wa, wb = f"((_ {ext} {w}) {a.term})", f"((_ {ext} {w}) {b.term})"
            wide = f"({op} {wa} {wb})"
            back = f"((_ {ext} {w}) {res})"
            ovf = f"(not (= {wide} {back}))"
            return Val(
                "tuple",
                items=[Val("bv", term=res, signed=a.signed, width=w), Val("bool", term=ovf)],
            )
        m = re.match(r"(Add|Sub|Mul|BitAnd|BitOr|Rem|Div)\((.*), (.*)\)$", text)
        if m:
            a, b = self.operand(p, m.group(2)), self.operand(p, m.group(3))
            if a.kind != "bv" or b.kind != "bv":
                raise Unsupported("arith of non-integers: " + text)
            op = {
                "Add": "bvadd",
                "Sub": "bvsub",
                "Mul": "bvmul",
                "BitAnd": "bvand",
                "BitOr": "bvor",
                "Rem": "bvsrem" if a.signed else "bvurem",
                "Div": "bvsdiv" if a.signed else "bvudiv",
            }[m.group(1)]
            return Val("bv", term=f"({op} {a.term} {b.term})", signed=a.signed, width=a.width)
        m = re.match(r"(.*) as (\w+) \(IntToInt\)$", text)
        if m:
            a = self.operand(p, m.group(1))
            it = self.int_type(m.group(2))
            if a.kind != "bv" or it is None:
                raise Unsupported("cast: " + text)
            if it[1] == a.width:
                t = a.term
            elif it[1] < a.width:
                t = f"((_ extract {it[1]-1} 0) {a.term})"
            else:
                ext = "sign_extend" if a.signed else "zero_extend"
                t = f"((_ {ext} {it[1]-a.width}) {a.term})"
            return Val("bv", term=t, signed=it[0], width=it[1])
        m = re.match(r"(.*) as .* \((PtrToPtr|PointerCoercion\(.*\)|Transmute|PointerExposeProvenance|PointerWithExposedProvenance)\)$", text)
        if m:
            return self.operand(p, m.group(1))
        m = re.match(r"Not\((.*)\)$", text)
        if m:
            a = self.operand(p, m.group(1))
            if a.kind == "bool":
                return Val("bool", term=f"(not {a.term})")
            raise Unsupported("Not of non-bool")
        if text.startswith("&"):
            return opaque("ref:" + text)
        if text.startswith("discriminant("):
            return opaque("discriminant")
        m = re.match(r"\[(.*)\]$", text)
        if m:
            items = [self.operand(p, x) for x in split_args(m.group(1))]
            return Val("tuple", items=items)
        m = re.match(r"Result::<.*>::(Ok|Err)\((.*)\)$", text)
        if m:
            return Val("agg", name=m.group(1), fields={"0": self.operand(p, m.group(2))})
        m = re.match(r"([\w:]+) \{ (.*) \}$", text)
        if m:
            fields = {}
            for part in split_args(m.group(2)):
                k, v = part.split(": ", 1)
                fields[k.strip()] = self.operand(p, v)
            return Val("agg", name=m.group(1), fields=fields)
        if text.startswith("no_retag "):
            text = text[len("no_retag "):]
        if re.match(r"(copy|move|const) ", text):
            return self.operand(p, text)
        m = re.match(r"(Option|std::option::Option)::<.*>::(None|Some)", text)
        if m:
            return opaque(text)
        raise Unsupported("rvalue: " + text)

    def call(self, p, dst, callee, args):
        for rx, sym in self.getters.items():
            if re.search(rx, callee):
                signed, width = self.symbols[sym]
                return Val("bv", term=sym, signed=signed, width=width)
        for rx, ev in self.accessors.items():
            if re.search(rx, callee):
                vals = [self.operand(p, a) for a in args]
                p.events.append((ev, vals))
                return opaque("elem:" + ev)
        for rx, ev in self.errors.items():
            if re.search(rx, callee):
                return opaque("err:" + ev)
        if re.search(r"::as_mut_ptr$|::as_ptr$", callee) and args:
            v = self.operand(p, args[0])
            if v.kind == "opaque":
                return opaque("ptr:" + v.tag)
        m = re.search(r"size_of::<(.*)>$", callee)
        if m:
            ty = m.group(1)
            if ty not in SIZE_OF:
                raise Unsupported("size_of " + ty)
            return Val("bv", term=bv(SIZE_OF[ty]), signed=False, width=64)
        p.opaque_calls.append(callee)
        return opaque("call:" + callee)

    def run(self, max_paths=64):
        start = Path()
        # parameters: integers become the declared symbols `argN`
        for loc, ty in self.fn.locals.items():
            pass
        self._dfs(start, "bb0", 0, max_paths)
        return self.paths

    def bind_param(self, p, local, sym):
        signed, width = self.symbols[sym]
        p.env[local] = Val("bv", term=sym, signed=signed, width=width)

    def _dfs(self, p, bb, depth, max_paths):
        COUNTERS["blocks"] += 1
        if depth > 0:
            COUNTERS["edges"] += 1
        if depth > 200:
            raise Unsupported("path too long (loop?)")
        if len(self.paths) > max_paths:
            raise Unsupported("too many paths")
        p.trace.append(bb)
        stmts = self.fn.blocks.get(bb)
        if stmts is None:
            raise Unsupported("missing block " + bb)
        for s in stmts:
            if s.startswith("StorageLive") or s.startswith("StorageDead") or s == "nop;" or s.startswith("FakeRead") or s.startswith("//") or s.startswith("PlaceMention") or s.startswith("Retag") or s.startswith("AscribeUserType") or s.startswith("Coverage"):
                continue
            if s == "return;":
                p.outcome = ("return", p.env.get("_0"))
                self.paths.append(p)
                return
            if s.startswith("resume") or s.startswith("unreachable"):
                return
            m = re.match(r"goto -> (bb\d+);$", s)
            if m:
                return self._dfs(p, m.group(1), depth + 1, max_paths)
            m = re.match(r"drop\(.*\) -> \[return: (bb\d+)", s)
            if m:
                return self._dfs(p, m.group(1), depth + 1, max_paths)
            m = re.match(r"switchInt\((.*)\) -> \[(.*)\];$", s)
            if m:
                v = self.operand(p, m.group(1))
                targets = []
                other = None
                for part in m.group(2).split(", "):
                    k, t = part.split(": ")
                    if k == "otherwise":
                        other = t
                    else:
                        targets.append((int(k), t))
                if v.kind == "bool":
                    conds = []
                    for k, t in targets:
                        c = v.term if k != 0 else f"(not {v.term})"
                        conds.append(c)
                        q = p.clone()
                        q.conds.append(c)
                        self._dfs(q, t, depth + 1, max_paths)
                    if other:
                        q = p.clone()
                        for c in conds:
                            q.conds.append(f"(not {c})")
                        self._dfs(q, other, depth + 1, max_paths)
                    return
                if v.kind == "bv":
                    conds = []
                    for k, t in targets:
                        c = f"(= {v.term} {bv(k, v.width)})"
                        conds.append(c)
                        q = p.clone()
                        q.conds.append(c)
                        self._dfs(q, t, depth + 1, max_paths)
                    if other:
                        q = p.clone()
                        for c in conds:
                            q.conds.append(f"(not {c})")
                        self._dfs(q, other, depth + 1, max_paths)
                    return
                if v.kind == "opaque":
                    # result of an opaque call (e.g. `is_null`): both outcomes are possible
                    for k, t in targets:
                        self._dfs(p.clone(), t, depth + 1, max_paths)
                    if other:
                        self._dfs(p.clone(), other, depth + 1, max_paths)
                    return
                raise Unsupported("switchInt on " + repr(v))
            m = re.match(r"assert\((!?)(.*?), \".*\) -> \[success: (bb\d+)", s)
            if m:
                v = self.operand(p, m.group(2))
                if v.kind != "bool":
                    raise Unsupported("assert on non-bool")
                good = f"(not {v.term})" if m.group(1) == "!" else v.term
                bad = p.clone()
                bad.conds.append(f"(not {good})")
                bad.outcome = ("panic", s[:120])
                self.paths.append(bad)
                p.conds.append(good)
                return self._dfs(p, m.group(3), depth + 1, max_paths)
            m = re.match(r"(_\d+) = (.*?)\((.*)\) -> \[return: (bb\d+)", s)
            if m and not re.match(r"(_\d+) = (Lt|Le|Gt|Ge|Eq|Ne|Add|Sub|Mul|AddWithOverflow|SubWithOverflow|MulWithOverflow|Not|BitAnd|BitOr|Rem|Div)\(", s):
                dst, callee, args, nxt = m.group(1), m.group(2), split_args(m.group(3)), m.group(4)
                p.env[dst] = self.call(p, dst, callee, args)
                return self._dfs(p, nxt, depth + 1, max_paths)
            m = re.match(r"(_\d+) = (.*);$", s)
            if m:
                p.env[m.group(1)] = self.rvalue(p, m.group(1), m.group(2))
                continue
            m = re.match(r"\(\(\*(_\d+)\)\.(\d+): .*?\) = (.*);$", s)
            if m:
                val = self.rvalue(p, None, m.group(3))
                p.events.append(("store", [m.group(1), int(m.group(2)), val]))
                continue
            m = re.match(r"\((_\d+)\.(\d+): [^)]*\) = (.*);$", s)
            if m:
                base = p.env.get(m.group(1))
                val = self.rvalue(p, None, m.group(3))
                if base is None or base.kind != "tuple":
                    base = Val("tuple", items=[opaque("?")] * 8)
                items = list(base.items)
                items[int(m.group(2))] = val
                p.env[m.group(1)] = Val("tuple", items=items)
                continue
            raise Unsupported("statement: " + s)
        raise Unsupported("block without terminator: " + bb)


def split_args(s):
    out, depth, cur = [], 0, ""
    for ch in s:
        if ch in "([<{":
            depth += 1
        elif ch in ")]>}":
            depth -= 1
        if ch == "," and depth == 0:
            out.append(cur.strip())
            cur = ""
        else:
            cur += ch
    if cur.strip():
        out.append(cur.strip())
    return out
