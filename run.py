#!/usr/bin/env python3
"""Entry point of the lightmotif verification framework.

    run.py <PROPERTY-ID> quick|thorough [--only REGEX] [--jobs N]

Decides one property by bounded model checking of the real code: every harness
instance registered for the property (``//@`` lines in /verif/kani/src/*.rs) is
compiled by Kani from /repo's *current working tree* and decided by CBMC/CaDiCaL.
Engine M properties (C18) are delegated to /verif/mir2smt.

Exit status: 0 = every instance verified (and every known finding still shown as
KNOWN-FINDING); 1 = a violation that replays against the native build
(``VIOLATION property=<id> replay=<path>``); 2 = inconclusive (timeout, out of
memory, unwinding bound too small, counterexample that does not reproduce...).
"""
import concurrent.futures as cf
import json
import os
import re
import shutil
import signal
import subprocess
import sys
import time

VERIF = os.path.dirname(os.path.abspath(__file__))
KANI = os.path.join(VERIF, "kani")
WORK = os.path.join(VERIF, ".work")
EVID = os.path.join(VERIF, "evidence")
REPO = "/repo"
# Development aid (seeded-change evaluation): VERIF_REPO=<worktree> checks another
# copy of the repository through a rewritten copy of the harness crate; evidence
# goes to a scratch directory. Registered checks never set it.
ALT = os.environ.get("VERIF_REPO")
if ALT:
    REPO = os.path.abspath(ALT)
    _tag = re.sub(r"\W+", "_", REPO).strip("_")
    _base = os.path.join(WORK, "alt_" + _tag)
    os.makedirs(_base, exist_ok=True)
    subprocess.check_call(["rsync", "-a", "--delete", "--exclude", "target", os.path.join(VERIF, "kani") + "/", os.path.join(_base, "kani") + "/"])
    if not os.path.islink(os.path.join(_base, "vendor")):
        os.symlink(os.path.join(VERIF, "vendor"), os.path.join(_base, "vendor"))
    KANI = os.path.join(_base, "kani")
    _ct = open(os.path.join(KANI, "Cargo.toml")).read().replace('path = "/repo/lightmotif"', f'path = "{REPO}/lightmotif"')
    open(os.path.join(KANI, "Cargo.toml"), "w").write(_ct)
    EVID = os.path.join(_base, "evidence")
KNOWN = os.path.join(VERIF, "known_findings.txt")

ENV = dict(os.environ)
ENV["CARGO_NET_OFFLINE"] = "true"
ENV.pop("RUSTFLAGS", None)

MEM_LIMIT_GB = int(os.environ.get("VERIF_MEM_GB", "14"))

FUNCTIONS = {}  # property -> list of encoded functions (filled from //! @functions lines)


def log(*a):
    print(*a, flush=True)


# ----------------------------------------------------------------------------
# discovery


def discover():
    """Parse `//@ PROP tier timeout desc` + `harness!(stubs, unwind, name, ...)`."""
    out = []
    funcs = {}
    for fn in sorted(os.listdir(os.path.join(KANI, "src"))):
        if not fn.endswith(".rs"):
            continue
        mod = fn[:-3]
        lines = open(os.path.join(KANI, "src", fn)).read().split("\n")
        meta = None
        for ln in lines:
            m = re.match(r"\s*//@\s*(C\d+)\s+(quick|thorough|extended|witness)\s+(\d+)\s+(.*)$", ln)
            if m:
                meta = list(m.groups())
                kargs = []
                mk = re.search(r" \| kani=(\S+)", meta[3])
                if mk:
                    kargs = mk.group(1).split(",")
                    meta[3] = meta[3].replace(mk.group(0), "")
                mem = 4
                mm = re.search(r" \| mem=(\d+)", meta[3])
                if mm:
                    mem = int(mm.group(1))
                    meta[3] = meta[3].replace(mm.group(0), "")
                uw = []
                if " | unwindset=" in meta[3]:
                    meta[3], spec = meta[3].split(" | unwindset=", 1)
                    for part in spec.strip().split(";"):
                        rx, rest = part.rsplit("#", 1)
                        no, bound = rest.split(":")
                        uw.append((rx.strip(), None if no == "*" else int(no), int(bound)))
                meta.append(uw)
                meta.append(mem)
                meta.append(kargs)
                continue
            m = re.match(r"\s*//!\s*@functions\s+(C\d+)\s*:\s*(.*)$", ln)
            if m:
                funcs.setdefault(m.group(1), []).extend(
                    [x.strip() for x in m.group(2).split(";") if x.strip()]
                )
                continue
            m = re.match(r"\s*harness!\(\s*(\w+)\s*,\s*(\d+)\s*,\s*(\w+)\s*,", ln)
            if not m:
                m2 = re.match(r"\s*(log|sampler)_harness!\(\s*(\d+)\s*,\s*(\w+)\s*,", ln)
                if m2:
                    m = re.match(r"(\w+) (\d+) (\w+)", f"log {m2.group(2)} {m2.group(3)}")
            if m:
                if meta is None:
                    raise SystemExit(f"{fn}: harness {m.group(3)} without //@ line")
                out.append(
                    dict(
                        prop=meta[0],
                        tier=meta[1],
                        timeout=min(int(meta[2]), int(os.environ.get("VERIF_TIMEOUT_CAP", "1000000"))),
                        desc=meta[3].strip(),
                        stubs=m.group(1),
                        unwind=int(m.group(2)),
                        name=m.group(3),
                        module=mod,
                        unwindset=meta[4],
                        mem_gb=meta[5],
                        kani_args=meta[6],
                    )
                )
                meta = None
    return out, funcs


def write_replay_table(harnesses):
    p = os.path.join(KANI, "src", "replay_table.rs")
    body = "// generated by run.py\npub const TABLE: &[(&str, fn())] = &[\n"
    for h in harnesses:
        if h.get("feature"):
            continue
        body += f'    ("{h["name"]}", crate::{h["module"]}::{h["name"]}),\n'
    body += "];\n"
    old = open(p).read() if os.path.exists(p) else None
    if old != body:
        open(p, "w").write(body)


def prepare():
    os.makedirs(WORK, exist_ok=True)
    os.makedirs(EVID, exist_ok=True)
    os.makedirs(os.path.join(WORK, "logs"), exist_ok=True)
    os.makedirs(os.path.join(WORK, "replays"), exist_ok=True)
    if not os.path.isdir(os.path.join(VERIF, "vendor", "generic-array")):
        subprocess.check_call([os.path.join(VERIF, "vendor", "mk_generic_array.sh")])
    lock = os.path.join(KANI, "Cargo.lock")
    if not os.path.exists(lock):
        shutil.copy(os.path.join(REPO, "Cargo.lock"), lock)


# ----------------------------------------------------------------------------
# running one harness






def group_rss_kb(pgid):
    """largest resident set (kB) among the processes of a process group"""
    worst = 0
    for pid in os.listdir("/proc"):
        if not pid.isdigit():
            continue
        try:
            with open(f"/proc/{pid}/stat") as f:
                st = f.read()
            fields = st[st.rindex(")") + 2 :].split()
            if int(fields[2]) != pgid:
                continue
            rss = int(fields[21]) * 4
            worst = max(worst, rss)
        except (OSError, ValueError, IndexError):
            continue
    return worst


def run_cmd(cmd, cwd, timeout, logpath, limit=True):
    """Run a command in its own process group under a wall-clock limit and a
    resident-memory cap per process (watchdog; the solver is the only big one)."""
    t0 = time.time()
    cap_gb = 40 if limit == "big" else (limit if isinstance(limit, int) and not isinstance(limit, bool) else MEM_LIMIT_GB)
    cap_kb = cap_gb * (1 << 20) if limit else None
    with open(logpath, "w") as lf:
        p = subprocess.Popen(cmd, cwd=cwd, env=ENV, stdout=lf, stderr=subprocess.STDOUT, preexec_fn=os.setsid)
        timed_out = False
        over_mem = False
        while True:
            try:
                rc = p.wait(timeout=2.0)
                break
            except subprocess.TimeoutExpired:
                pass
            if time.time() - t0 > timeout:
                timed_out = True
            elif cap_kb is not None:
                # soft cap: above it the instance survives only while the machine has memory
                # to spare (CBMC balloons *after* solving when properties failed); hard cap 44 GB
                rss = group_rss_kb(p.pid)
                if rss > 44 * (1 << 20) or (rss > cap_kb and mem_available_gb() < 8):
                    over_mem = True
            if timed_out or over_mem:
                try:
                    os.killpg(p.pid, signal.SIGKILL)
                except ProcessLookupError:
                    pass
                p.wait()
                rc = -9
                break
        if over_mem:
            lf.write("\nVERIF-WATCHDOG: out of memory (resident set above the cap)\n")
    return rc, timed_out, time.time() - t0


def kani_cmd(h, target_dir, playback=False, cbmc_args=None):
    cmd = [
        "cargo",
        "kani",
        "-Z",
        "stubbing",
        "-Z",
        "unstable-options",
        "--harness",
        f'{h["module"]}::{h["name"]}',
        "--exact",
        "--target-dir",
        target_dir,
    ]
    if h.get("feature"):
        cmd += ["--features", h["feature"]]
    # Kani's assertion-reachability instrumentation is switched off: it is what makes CBMC
    # balloon *after* solving on large instances (measured: the same instance needs 345 s
    # without it and exceeds 24 GB / 28 min with it). Vacuity is guarded by the kani::cover!
    # witnesses of every harness instead.
    cmd += ["--no-assertion-reach-checks"]
    cmd += [a for a in (h.get("kani_args") or []) if a != "--no-assertion-reach-checks"]
    if playback:
        cmd += ["-Z", "concrete-playback", "--concrete-playback", "print"]
    if cbmc_args:
        cmd += ["--cbmc-args"] + list(cbmc_args)
    return cmd


def resolve_unwindset(h, tdir):
    """Per-loop unwinding bounds (CBMC --unwindset) for loops named by (function regex, loop
    number): the loop identifiers are read from the fully instrumented goto binary of this
    very harness (`cbmc --show-loops`), so they follow the current source. Bounds are
    checked by unwinding assertions like the global bound."""
    logpath = os.path.join(WORK, "logs", h["name"] + ".loops.log")
    run_cmd(kani_cmd(h, tdir, cbmc_args=["--show-loops"]), KANI, 900, logpath, limit=False)
    txt = open(logpath, errors="replace").read()
    import glob

    # the goto binary of this harness: <target>/kani/<triple>/debug/build/lmverif/<hash>/out/*<len><name>.out
    cands = glob.glob(os.path.join(tdir, "kani", "*", "debug", "build", "lmverif", "*", "out", f"*{len(h['name'])}{h['name']}.out"))
    if not cands:
        return None, "goto binary not found for --show-loops"
    gotofile = max(cands, key=os.path.getmtime)
    p = subprocess.run(["cbmc", "--show-loops", gotofile], capture_output=True, text=True, env=ENV)
    loops = re.findall(r"Loop (\S+):\n\s+file (\S+) line (\d+) column \d+ function (.*)", p.stdout)
    out = []
    for rx, no, bound in h["unwindset"]:
        hits = [lid for (lid, f, ln, fn) in loops if re.search(rx, fn) and (no is None or lid.endswith("." + str(no)))]
        if not hits:
            return None, f"unwindset target not found: {rx}#{no}"
        out += [f"{lid}:{bound}" for lid in hits]
    return ",".join(out), None


RE_CHECK = re.compile(r"Check (\d+): (.*)")
# CBMC / Kani memory-safety property classes (descriptions of pointer checks, the
# preconditions of memcpy/memmove/memset, and the alignment asserted by the load models)
RE_MEMCHECK = re.compile(
    r"dereference failure|pointer|region (readable|writeable)|memcpy|memmove|memset|"
    r"out of bounds|deallocated|dead object|misaligned"
)


def parse_log(path):
    txt = open(path, errors="replace").read()
    r = dict(
        status=None,
        checks=0,
        failed=0,
        failures=[],
        covers_total=0,
        covers_sat=0,
        symex_s=None,
        solver_s=0.0,
        vars=0,
        clauses=0,
        vccs=None,
        verif_s=None,
        undetermined=0,
        unreachable=0,
    )
    m = re.search(r"VERIFICATION:- (SUCCESSFUL|FAILED)", txt)
    if m:
        r["status"] = m.group(1)
    m = re.search(r"\*\* (\d+) of (\d+) failed(?: \(([^)]*)\))?", txt)
    if m:
        r["failed"], r["checks"] = int(m.group(1)), int(m.group(2))
        extra = m.group(3) or ""
        mu = re.search(r"(\d+) undetermined", extra)
        if mu:
            r["undetermined"] = int(mu.group(1))
        mu = re.search(r"(\d+) unreachable", extra)
        if mu:
            r["unreachable"] = int(mu.group(1))
    m = re.search(r"Runtime Symex: ([\d.e+-]+)s", txt)
    if m:
        r["symex_s"] = float(m.group(1))
    for m in re.finditer(r"Runtime Solver: ([\d.e+-]+)s", txt):
        r["solver_s"] += float(m.group(1))
    for m in re.finditer(r"(\d+) variables, (\d+) clauses", txt):
        r["vars"] = max(r["vars"], int(m.group(1)))
        r["clauses"] = max(r["clauses"], int(m.group(2)))
    m = re.search(r"size of program expression: (\d+) steps", txt)
    r["ssa_steps"] = int(m.group(1)) if m else 0
    r["unwindings"] = len(re.findall(r"^Unwinding loop ", txt, re.M))
    m = re.search(r"Generated (\d+) VCC\(s\), (\d+) remaining", txt)
    if m:
        r["vccs"] = [int(m.group(1)), int(m.group(2))]
    m = re.search(r"Verification Time: ([\d.]+)s", txt)
    if m:
        r["verif_s"] = float(m.group(1))
    # failed checks
    blocks = re.split(r"\n(?=Check \d+: )", txt)
    for b in blocks:
        mm = RE_CHECK.match(b)
        if not mm:
            continue
        st = re.search(r"- Status: (\w+)", b)
        if st and ".cover." in mm.group(2):
            de = re.search(r'- Description: "(.*)"', b)
            r.setdefault("covers", []).append((de.group(1) if de else "", st.group(1)))
            continue
        if not st or st.group(1) not in ("FAILURE", "UNDETERMINED"):
            continue
        if st.group(1) != "FAILURE":
            continue
        de = re.search(r'- Description: "(.*)"', b)
        lo = re.search(r"- Location: (.*)", b)
        r["failures"].append(
            dict(
                check=mm.group(2).strip(),
                description=de.group(1) if de else "",
                location=(lo.group(1).strip() if lo else ""),
            )
        )
    # reachability witnesses: covers whose message starts with "opt:" are optional
    cov = r.get("covers", [])
    req = [c for c in cov if not c[0].startswith("opt:")]
    r["covers_total"] = len(req)
    r["covers_sat"] = sum(1 for c in req if c[1] == "SATISFIED")
    r["covers_opt_sat"] = sum(1 for c in cov if c[0].startswith("opt:") and c[1] == "SATISFIED")
    if "out of memory" in txt.lower() or "std::bad_alloc" in txt or "Status: ERROR" in txt:
        r["oom_or_error"] = True
    m = re.search(r"unsupported construct|unsupported feature", txt, re.I)
    tests = []
    for blk in txt.split("Concrete playback unit test for")[1:]:
        mk = re.search(r"/// Check for `([^`]*)`: \"(.*)\"\s*$", blk, re.M)
        vals = re.findall(r"^\s*vec!\[([\d,\s]*)\],?\s*$", blk, re.M)
        tests.append(
            dict(
                kind=mk.group(1) if mk else "?",
                check=mk.group(2).strip('"') if mk else "?",
                vals=[[int(x) for x in v.replace(" ", "").split(",") if x != ""] for v in vals],
            )
        )
    if tests:
        r["playback_tests"] = tests
    return r


def classify(h, rc, timed_out, res):
    """-> verdict in {pass, fail, inconclusive}, reason"""
    if timed_out:
        return "inconclusive", f'timeout after {h["timeout"]}s'
    if res["status"] == "SUCCESSFUL":
        if res["covers_total"] > 0 and res["covers_sat"] < res["covers_total"]:
            return "inconclusive", "vacuity witness not satisfied (%d of %d)" % (
                res["covers_sat"],
                res["covers_total"],
            )
        if res["covers_total"] == 0 and res.get("covers_opt_sat", 0) == 0:
            return "inconclusive", "harness has no satisfied reachability witness"
        return "pass", ""
    if res["status"] == "FAILED":
        fs = res["failures"]
        if not fs:
            if res.get("oom_or_error"):
                return "inconclusive", "CBMC error / out of memory"
            return "inconclusive", "FAILED without a failed check (see log)"
        # CBMC's float instrumentation (Kani passes --nan-check): producing NaN or
        # +-inf is defined behaviour in Rust and no property forbids it, so these
        # checks are not part of any claim (DESIGN.md §3, stub 3a).
        fs = [
            f
            for f in fs
            if not re.match(r"NaN on |arithmetic overflow on floating-point", f["description"])
        ]
        if not fs:
            if res["covers_total"] == 0 or res["covers_sat"] < res["covers_total"]:
                return "inconclusive", "vacuity witness not satisfied"
            if res["undetermined"]:
                return "inconclusive", "undetermined checks"
            return "pass", "float NaN/inf instrumentation ignored"
        unwind = [f for f in fs if "unwinding assertion" in f["description"]]
        unsup = [
            f
            for f in fs
            if "is not currently supported by Kani" in f["description"]
            or "unsupported" in f["description"].lower()
        ]
        real = [f for f in fs if f not in unwind and f not in unsup]
        if real:
            return "fail", real[0]["description"]
        if unsup:
            return "inconclusive", "unsupported construct reachable: " + unsup[0]["description"]
        return "inconclusive", "unwinding bound too small: " + unwind[0]["location"]
    if res.get("oom_or_error"):
        return "inconclusive", "CBMC error / out of memory"
    return "inconclusive", f"no verdict (exit {rc}; see log)"


def mem_available_gb():
    for ln in open("/proc/meminfo"):
        if ln.startswith("MemAvailable:"):
            return int(ln.split()[1]) / (1 << 20)
    return 0.0


LEDGER = os.path.join(WORK, "mem")
TOTAL_GB = 62


def _ledger_sum():
    tot = 0
    for fn in os.listdir(LEDGER):
        if fn == "lock":
            continue
        try:
            pid, gb = fn.split(".")[0:2]
            os.kill(int(pid), 0)
            tot += int(gb)
        except (ValueError, ProcessLookupError, PermissionError):
            try:
                os.unlink(os.path.join(LEDGER, fn))
            except OSError:
                pass
    return tot


def reserve_memory(need_gb, tag, max_wait=6 * 3600):
    """Admission control shared by all run.py processes (the machine has no swap): a solver
    instance starts only when the sum of the reservations of the running instances plus its
    own stays below the machine's memory, and enough memory is available right now."""
    import fcntl

    os.makedirs(LEDGER, exist_ok=True)
    t0 = time.time()
    while True:
        with open(os.path.join(LEDGER, "lock"), "w") as lk:
            fcntl.flock(lk, fcntl.LOCK_EX)
            if (_ledger_sum() + need_gb <= TOTAL_GB - 2 and mem_available_gb() >= need_gb + 4) or time.time() - t0 > max_wait:
                path = os.path.join(LEDGER, f"{os.getpid()}.{int(need_gb)}.{tag}")
                open(path, "w").close()
                return path
        time.sleep(4 + (os.getpid() % 5))


def release_memory(path):
    try:
        os.unlink(path)
    except OSError:
        pass


def wait_for_memory(need_gb, max_wait=7200):
    t0 = time.time()
    while mem_available_gb() < need_gb + 6 and time.time() - t0 < max_wait:
        time.sleep(5 + (os.getpid() % 7))


def run_harness(h, slot):
    ticket = reserve_memory(h.get("mem_gb", 4), h["name"])
    try:
        return _run_harness(h, slot)
    finally:
        release_memory(ticket)


DEADLINE = [None]  # absolute time by which every instance of this run must have ended


def _run_harness(h, slot):
    if DEADLINE[0] is not None:
        left = DEADLINE[0] - time.time()
        if left < 20:
            res = dict(status=None, checks=0, failed=0, failures=[], covers_total=0, covers_sat=0, symex_s=None,
                       solver_s=0.0, vars=0, clauses=0, vccs=None, verif_s=None, undetermined=0, unreachable=0,
                       ssa_steps=0, unwindings=0)
            res.update(verdict="inconclusive", reason="quick-tier deadline reached before the instance could start", wall_s=0.0, log="")
            return res
        h = dict(h, timeout=min(h["timeout"], int(left)))
    tdir = os.path.join(WORK, f"t{slot}")
    logpath = os.path.join(WORK, "logs", h["name"] + ".log")
    extra = None
    if h.get("unwindset"):
        spec, err = resolve_unwindset(h, tdir)
        if err:
            res = parse_log(logpath) if os.path.exists(logpath) else {}
            res = dict(status=None, checks=0, failed=0, failures=[], covers_total=0, covers_sat=0, symex_s=None,
                       solver_s=0.0, vars=0, clauses=0, vccs=None, verif_s=None, undetermined=0, unreachable=0, ssa_steps=0, unwindings=0)
            res.update(verdict="inconclusive", reason=err, wall_s=0.0, log=logpath)
            return res
        extra = ["--unwindset", spec]
        h["_cbmc_args"] = extra
    rc, to, wall = run_cmd(kani_cmd(h, tdir, cbmc_args=extra), KANI, h["timeout"], logpath, limit=max(MEM_LIMIT_GB, h.get("mem_gb", 4) + 4))
    res = parse_log(logpath)
    verdict, reason = classify(h, rc, to, res)
    res.update(verdict=verdict, reason=reason, wall_s=round(wall, 1), log=logpath)
    return res


# ----------------------------------------------------------------------------
# replay of counterexamples against the native build


def build_native(profile):
    tdir = os.path.join(WORK, "native")
    cmd = ["cargo", "build", "--offline", "--bin", "replay", "--target-dir", tdir]
    if profile == "release":
        cmd.append("--release")
    logpath = os.path.join(WORK, "logs", f"native_{profile}.log")
    rc, to, _ = run_cmd(cmd, KANI, 900, logpath, limit=False)
    if rc != 0:
        return None
    return os.path.join(tdir, profile if profile == "release" else "debug", "replay")


def replay(h, slot):
    """Re-run the failing harness with concrete playback, then natively."""
    tdir = os.path.join(WORK, f"t{slot}")
    logpath = os.path.join(WORK, "logs", h["name"] + ".playback.log")
    ticket = reserve_memory(min(2 * h.get("mem_gb", 4) + 4, 40), h["name"] + ".playback")
    try:
        rc, to, _ = run_cmd(kani_cmd(h, tdir, playback=True, cbmc_args=h.get("_cbmc_args")), KANI, h["timeout"] * 2, logpath, limit="big")
    finally:
        release_memory(ticket)
    res = parse_log(logpath)
    tests = [
        t
        for t in res.get("playback_tests", [])
        if t["kind"] != "cover" and not re.match(r"NaN on |arithmetic overflow on floating-point", t["check"])
    ]
    out = dict(harness=h["name"], module=h["module"], description=h["desc"], tests=[])
    rpath = os.path.join(WORK, "replays", h["name"] + ".json")
    if not tests:
        # Kani could not print concrete values (typically: trace generation ran out of
        # memory on a large instance). The verdict stands; look for a witness natively.
        out["error"] = "no concrete values produced by Kani; native search fallback"
        exe = build_native("release")
        spath = os.path.join(WORK, "replays", h["name"] + ".search.json")
        if exe is not None:
            for seed in range(1, 4):
                try:
                    p = subprocess.run([exe, "--search", h["name"], str(seed), "60", spath], capture_output=True, text=True, timeout=200, env=ENV)
                except subprocess.TimeoutExpired:
                    continue
                out.setdefault("search", []).append(dict(seed=seed, exit=p.returncode, stderr_tail=(p.stderr or "")[-300:]))
                if p.returncode == 101:
                    # confirm through the ordinary replay path, both profiles
                    ok = False
                    for profile in ("debug", "release"):
                        e2 = build_native(profile)
                        if e2 is None:
                            continue
                        q = subprocess.run([e2, h["name"], spath], capture_output=True, text=True, timeout=300, env=ENV)
                        out.setdefault("native", {})[profile] = dict(exit=q.returncode, stderr_tail=(q.stderr or "")[-300:])
                        ok = ok or q.returncode == 101 or q.returncode < 0
                    json.dump(out, open(rpath, "w"), indent=1)
                    if ok:
                        return spath, True, out
        json.dump(out, open(rpath, "w"), indent=1)
        return rpath, None, out
    exes = {p: build_native(p) for p in ("debug", "release")}
    reproduced = False
    first_repro = None
    for i, t in enumerate(tests[:8]):
        tpath = os.path.join(WORK, "replays", f'{h["name"]}.{i}.json')
        rec = dict(harness=h["name"], check=t["check"], kind=t["kind"], vals=t["vals"], native={})
        json.dump(rec, open(tpath, "w"))
        for profile, exe in exes.items():
            if exe is None:
                rec["native"][profile] = "build failed"
                continue
            try:
                p = subprocess.run([exe, h["name"], tpath], capture_output=True, text=True, timeout=300, env=ENV)
                rec["native"][profile] = dict(exit=p.returncode, stderr_tail=(p.stderr or "")[-500:])
                if p.returncode == 101 or p.returncode < 0:
                    reproduced = True
                    if first_repro is None:
                        first_repro = tpath
            except subprocess.TimeoutExpired:
                rec["native"][profile] = "timeout"
        json.dump(rec, open(tpath, "w"), indent=1)
        out["tests"].append(rec)
    json.dump(out, open(rpath, "w"), indent=1)
    return (first_repro or rpath), reproduced, out


# ----------------------------------------------------------------------------
# model check of the intrinsic stubs against the hardware


def modelcheck(seed):
    tdir = os.path.join(WORK, "native")
    logpath = os.path.join(WORK, "logs", "modelcheck.log")
    cmd = ["cargo", "run", "--offline", "--release", "--bin", "modelcheck", "--target-dir", tdir, "--", str(seed)]
    rc, to, wall = run_cmd(cmd, KANI, 900, logpath, limit=False)
    txt = open(logpath, errors="replace").read()
    m = re.search(r"MODELCHECK OK models=(\d+) cases=(\d+)", txt)
    if rc == 0 and m:
        return True, dict(models=int(m.group(1)), cases=int(m.group(2)), wall_s=round(wall, 1))
    return False, dict(log=logpath)


# ----------------------------------------------------------------------------
# known findings


def load_known():
    """lines: `finding: property=<id> witness=<harness> <what fails>` / `fixed: ...`"""
    out = []
    if not os.path.exists(KNOWN):
        return out
    for ln in open(KNOWN):
        ln = ln.strip()
        m = re.match(r"finding:\s*property=(C\d+)\s+witness=(\w+)\s+(.*)$", ln)
        if m:
            out.append(dict(prop=m.group(1), witness=m.group(2), what=m.group(3)))
    return out


# ----------------------------------------------------------------------------


def main():
    if len(sys.argv) == 3 and sys.argv[1] == "--replay":
        prepare()
        allh, _ = discover()
        write_replay_table(allh)
        rec = json.load(open(sys.argv[2]))
        rc = 0
        for profile in ("debug", "release"):
            exe = build_native(profile)
            p = subprocess.run([exe, rec["harness"], sys.argv[2]], env=ENV)
            log(f"[replay/{profile}] exit={p.returncode} ({'reproduced' if p.returncode == 101 or p.returncode < 0 else 'not reproduced'})")
            if p.returncode == 101 or p.returncode < 0:
                rc = 1
        sys.exit(rc)
    if len(sys.argv) < 3:
        raise SystemExit(__doc__)
    prop, tier = sys.argv[1], sys.argv[2]
    only = None
    jobs = int(os.environ.get("VERIF_JOBS", "16"))
    args = sys.argv[3:]
    while args:
        a = args.pop(0)
        if a == "--only":
            only = re.compile(args.pop(0))
        elif a == "--jobs":
            jobs = int(args.pop(0))
    seed = int(os.environ.get("VERIF_SEED", "0"))
    t0 = time.time()
    if tier == "quick" and os.environ.get("VERIF_NO_DEADLINE") is None:
        # the quick tier is the check run on every change: everything must be over in < 15 min
        DEADLINE[0] = t0 + int(os.environ.get("VERIF_QUICK_DEADLINE", "840"))
    prepare()
    allh, funcs = discover()
    write_replay_table(allh)

    if prop == "C18":
        sys.path.insert(0, os.path.join(VERIF, "mir2smt"))
        import c18  # noqa

        sys.exit(c18.main(tier, seed))

    # `extended` instances are kept for reference (no verdict within the budget of this
    # sandbox, see DESIGN.md): they are scheduled by neither MANIFEST command.
    tiers = {"quick": ("quick",), "thorough": ("quick", "thorough")}.get(
        tier, ("quick", "thorough", "extended")
    )
    known = [k for k in load_known() if k["prop"] == prop]
    wit_names = {k["witness"] for k in known}
    hs = [h for h in allh if h["prop"] == prop and h["tier"] in tiers]
    wits = [h for h in allh if h["prop"] == prop and h["tier"] == "witness" and h["name"] in wit_names]
    if only:
        hs = [h for h in hs if only.search(h["name"])]
        wits = [h for h in wits if only.search(h["name"])]
    if not hs:
        raise SystemExit(f"no harness registered for {prop}/{tier}")

    mc_ok, mc_info = True, None
    if any(h["stubs"] not in ("none", "vec", "log") for h in hs + wits):
        mc_ok, mc_info = modelcheck(seed)
        log(f"[modelcheck] ok={mc_ok} {mc_info}")

    todo = sorted(hs + wits, key=lambda h: -h["timeout"])
    results = {}
    slots = list(range(min(jobs, len(todo))))
    log(f"[{prop}/{tier}] {len(hs)} harness instance(s) + {len(wits)} known-finding witness(es), {len(slots)} worker(s)")

    import fcntl

    nslots = int(os.environ.get("VERIF_SLOTS", "16"))

    def acquire_slot():
        # machine-wide pool of target dirs (flock), shared by concurrent run.py's
        while True:
            for i in range(nslots):
                f = open(os.path.join(WORK, f"t{i}.lock"), "w")
                try:
                    fcntl.flock(f, fcntl.LOCK_EX | fcntl.LOCK_NB)
                    return i, f
                except OSError:
                    f.close()
            time.sleep(1.0)

    def work(h):
        s, lockf = acquire_slot()
        try:
            r = run_harness(h, s)
            log(
                f'  {h["name"]:<44} {r["verdict"]:<12} {r["wall_s"]:>7.1f}s checks={r["checks"]} '
                f'vars={r["vars"]} {r["reason"]}'
            )
            if r["verdict"] == "fail":
                rpath, repro, info = replay(h, s)
                r["replay"] = rpath
                r["reproduced"] = repro
                r["replay_info"] = [(t["check"], t["native"]) for t in info.get("tests", [])][:3]
                log(f'    replay {h["name"]}: reproduced={repro} file={rpath}')
            return h["name"], r
        finally:
            lockf.close()

    with cf.ThreadPoolExecutor(max_workers=len(slots)) as ex:
        for name, r in ex.map(work, todo):
            results[name] = r

    violations, inconclusive, known_lines = [], [], []
    for h in hs:
        r = results[h["name"]]
        if r["verdict"] == "fail":
            if r.get("reproduced"):
                violations.append((h, r))
            else:
                mem = any(RE_MEMCHECK.search(f["description"]) for f in r["failures"])
                r["reason"] += " [counterexample did not reproduce natively%s]" % (
                    "; memory-safety check, see DESIGN.md C06" if mem else ""
                )
                if mem and h.get("prop") == "C06":
                    violations.append((h, r))
                else:
                    inconclusive.append((h, r))
        elif r["verdict"] == "inconclusive":
            inconclusive.append((h, r))
    if not mc_ok:
        inconclusive.append((dict(name="modelcheck"), dict(reason="intrinsic model disagrees with hardware")))
    for k in known:
        h = next((x for x in wits if x["name"] == k["witness"]), None)
        if h is None:
            continue
        r = results[h["name"]]
        if r["verdict"] == "fail":
            known_lines.append(f'KNOWN-FINDING: property={prop} {k["what"]} (witness {k["witness"]}: {r["reason"]})')
        elif r["verdict"] == "inconclusive":
            inconclusive.append((h, r))
        else:
            log(f'note: listed finding no longer reproduces: {k["witness"]}')

    wall = time.time() - t0
    passed = [h for h in hs if results[h["name"]]["verdict"] == "pass"]
    samples = []
    for h in hs:
        r = results[h["name"]]
        samples.append(
            dict(
                harness=h["name"],
                what=h["desc"],
                stubs=h["stubs"],
                unwind=h["unwind"],
                verdict=r["verdict"],
                reason=r["reason"],
                checks=r["checks"],
                failed_checks=r["failed"],
                covers=[r["covers_sat"], r["covers_total"]],
                sat_vars=r["vars"],
                sat_clauses=r["clauses"],
                symex_s=r["symex_s"],
                solver_s=round(r["solver_s"], 2),
                wall_s=r["wall_s"],
            )
        )
    nontrivial = [h for h in passed if results[h["name"]]["vars"] > 0 and results[h["name"]]["covers_sat"] > 0]
    ev = dict(
        property_id=prop,
        tier=tier if tier in ("quick", "thorough") else "thorough",  # `extended` runs are development aids
        seed=seed,
        level="model_checking",
        coverage=dict(
            evaluations=len(hs) + len(wits),
            distinct_nontrivial=len(nontrivial),
            rule=(
                "one evaluation = one Kani harness instance (concrete sizes, symbolic contents) compiled from "
                "/repo's working tree and decided by CBMC 6.11 + CaDiCaL with unwinding assertions; an instance is "
                "non-trivial when it ended SUCCESSFUL, its SAT instance had variables and its kani::cover! "
                "reachability witnesses were all SATISFIED; instances are distinct by harness name (sizes/backends)"
            ),
            samples=samples,
            # model-checking vocabulary for a *bounded* model checker: a state is one step of the
            # unwound program in static-single-assignment form (CBMC: "size of program expression"),
            # i.e. a symbolic program state reached by symbolic execution; a transition is one loop
            # unwinding or one verification condition generated between such states. Both are measured.
            states=max(1, sum(results[h["name"]].get("ssa_steps", 0) for h in hs)),
            transitions=max(1, sum(results[h["name"]].get("unwindings", 0) + (results[h["name"]].get("vccs") or [0])[0] for h in hs)),
            traces_validated_against_impl=sum(1 for h in hs if results[h["name"]].get("reproduced") is not None),
            obligations=sum(results[h["name"]]["checks"] for h in hs),
            discharged=sum(results[h["name"]]["checks"] - results[h["name"]]["failed"] for h in passed),
            solver_time_s=round(sum(results[h["name"]]["solver_s"] for h in hs), 1),
            symex_time_s=round(sum((results[h["name"]]["symex_s"] or 0) for h in hs), 1),
            functions_encoded=funcs.get(prop, []),
            known_finding_witnesses=[k["witness"] for k in known],
            intrinsic_modelcheck=mc_info,
            exhaustive=False,
            explanation=(
                "bounded model checking: within each instance's stated sizes the verdict covers every value of the "
                "symbolic inputs; nothing outside those sizes is claimed"
            ),
        ),
        assumptions=[
            "generic-array layout patch (parents:[U;2] -> two fields; same repr(C) layout) to avoid a CBMC abort",
            "x86 intrinsics replaced by the scalar models of kani/src/models.rs, validated against the hardware by modelcheck on every run",
            "alloc::fmt::format stubbed to an empty string",
            "CBMC pointer model: allocation bases are maximally aligned; uninitialised reads are not checked",
            "Kani verifies the dev profile (overflow checks on); counterexamples are replayed in dev and release",
        ],
        wall_s=round(wall, 1),
        violations=len(violations),
    )
    json.dump(ev, open(os.path.join(EVID, prop + ".json"), "w"), indent=1)

    for ln in known_lines:
        log(ln)
    for h, r in inconclusive:
        log(f'INCONCLUSIVE property={prop} harness={h["name"]} {r["reason"]}')
    for h, r in violations:
        log(f'VIOLATION property={prop} replay={r.get("replay")}')
        log(f'  harness={h["name"]} ({h["desc"]}): {r["reason"]}')
    log(f"[{prop}/{tier}] pass={len(passed)}/{len(hs)} violations={len(violations)} inconclusive={len(inconclusive)} wall={wall:.0f}s")
    if violations:
        sys.exit(1)
    if inconclusive:
        sys.exit(2)
    sys.exit(0)


if __name__ == "__main__":
    main()
